package main

// c15.go — C15: swaps and conversions honour the user's slippage limits.
//
// A world with three tokens, two bancor coins and six swap pools (the gas coins' pools with the base
// coin among them) is put into the genesis of a real in-process node; every transaction (the six
// conversion types, routes of 2..5 coins that do / do not pass through the commission pool in both
// orientations, every gas coin kind, limits tight around the amount the node itself would accept) is
// run in check mode on the in-flight state and then delivered.  Main stream (no limit orders): the
// observables of every step are written as a case of model 19 (coq/Model/SwapTx.v).  Second stream:
// limit orders in the route's pools and in the commission pool, monitors only.  Monitors are evaluated
// on the node's own behaviour, straight from the property text, independent of the model.

import (
	"encoding/json"
	"fmt"
	"io"
	"log"
	"math/big"
	"os"
	"regexp"
	"sort"
	"strconv"
	"strings"

	"github.com/MinterTeam/minter-go-node/coreV2/state"
	"github.com/MinterTeam/minter-go-node/coreV2/transaction"
	"github.com/MinterTeam/minter-go-node/coreV2/types"
	"github.com/MinterTeam/minter-go-node/formula"
)

func init() {
	commands["c15"] = runC15
	// c12tx: the same histories restricted to the three conversions along the bonding curve (sell / buy / sell-all coin);
	// the monitor c12-tx-off-curve and the correspondence with model 19 tie formula/formula.go's callers to the curve
	commands["c12tx"] = func(seed uint64, n int, out, stats string, args []string) {
		c15BancorOnly, c15StatsProp = true, "C12"
		runC15(seed, n, out, stats, nil)
	}
}

var (
	c15BancorOnly bool
	c15StatsProp  = "C15"
)

const c15Model = 19

const (
	c15T1 = types.CoinID(1) // token, pool with the base coin
	c15T2 = types.CoinID(2) // token, no pool with the base coin
	c15T3 = types.CoinID(3) // token, pool with the base coin
	c15B1 = types.CoinID(4) // bancor coin with a pool with the base coin (both commission routes)
	c15B2 = types.CoinID(5) // bancor coin, reserve route only
)

var (
	c15Coins   = []types.CoinID{0, c15T1, c15T2, c15T3, c15B1, c15B2}
	c15Pools   = [][2]types.CoinID{{0, c15T1}, {c15T1, c15T2}, {c15T2, c15T3}, {0, c15T3}, {0, c15B1}, {c15T3, c15B1}}
	c15MaxSup  = ZS("1000000000000000000000000000000000")
	reBuyOnly  = regexp.MustCompile(`buy only (\d+)`)
	reSpend    = regexp.MustCompile(`need to spend (\d+)`)
	c15Pip     = ZS("1000000000000000000")
	c15Kinds   = []string{"", "sellpool", "buypool", "sellallpool", "sellcoin", "buycoin", "sellallcoin"}
)

type c15tx struct {
	typ     int // 1 sell pool, 2 buy pool, 3 sell-all pool, 4 sell coin, 5 buy coin, 6 sell-all coin
	coins   []types.CoinID
	v1, v2  *big.Int
	gas     types.CoinID
	gp      uint32
	payload []byte
	sender  Acct
}

func (t *c15tx) isSell() bool { return t.typ != 2 && t.typ != 5 }
func (t *c15tx) comCoin() types.CoinID {
	if (t.typ == 3 || t.typ == 6) && len(t.coins) > 0 {
		return t.coins[0]
	}
	if t.typ == 3 {
		return 0
	}
	return t.gas
}
func (t *c15tx) first() types.CoinID { return t.coins[0] }
func (t *c15tx) last() types.CoinID  { return t.coins[len(t.coins)-1] }

type c15Shadow struct {
	bal  map[string]*big.Int
	pool map[int][2]*big.Int
	coin map[types.CoinID][2]*big.Int
}

type c15gen struct {
	nd      *Node
	r       *Rng
	traders []Acct
	maker   Acct
	com     types.Commission
	shadow  *c15Shadow
	orders  bool
}

func (g *c15gen) cs() *state.CheckState { return state.NewCheckState(g.nd.App.VerifStateDeliver()) }
func (g *c15gen) bal(a types.Address, c types.CoinID) *big.Int {
	return g.nd.App.VerifStateDeliver().Accounts.GetBalance(a, c)
}
func (g *c15gen) reserves(a, b types.CoinID) (*big.Int, *big.Int) {
	if a == b {
		return nil, nil
	}
	r0, r1, _ := g.cs().Swap().SwapPool(a, b)
	return r0, r1
}

func c15Log(r *Rng, lo, hi int) *big.Int {
	d := lo + r.Intn(hi-lo+1)
	b := new(big.Int).Exp(Z(10), Z(int64(d)), nil)
	x := r.BigBelow(new(big.Int).Mul(b, Z(9)))
	return x.Add(x, b)
}

// ---- genesis ---------------------------------------------------------------------------------------

func newC15World(r *Rng, orders bool) *c15gen {
	nTraders := 3
	spec := &GenesisSpec{NAccounts: nTraders + 1 + 2, Balance: pip(int64(2000000 + r.Intn(5000000))), NVals: 2, ValOwnersFrom: nTraders + 1}
	spec.Mutate = func(st *types.AppState) {
		vol := map[types.CoinID]*big.Int{}
		for _, c := range c15Coins[1:] {
			vol[c] = big.NewInt(0)
		}
		// balances of the traders and of the order maker
		for i := 0; i <= nTraders; i++ {
			poor := i == nTraders-1 && r.Intn(3) == 0
			for _, c := range c15Coins[1:] {
				v := c15Log(r, 21, 25)
				if poor || r.Intn(14) == 0 {
					v = c15Log(r, 0, 17) // dust: below or around a fee
				}
				if i == nTraders {
					v = c15Log(r, 24, 25)
				}
				st.Accounts[i].Balance = append(st.Accounts[i].Balance, types.Balance{Coin: uint64(c), Value: v.String()})
				vol[c].Add(vol[c], v)
			}
			if poor {
				st.Accounts[i].Balance[0].Value = c15Log(r, 14, 18).String()
			}
		}
		// bancor parameters first (the pool of B1 is priced near its bonding-curve price)
		type bp struct {
			crr     uint64
			reserve *big.Int
		}
		bps := map[types.CoinID]bp{}
		for _, c := range []types.CoinID{c15B1, c15B2} {
			crr := uint64(10 + r.Intn(91))
			if r.Intn(5) == 0 {
				crr = 100
			}
			res := new(big.Int).Add(pip(10000), c15Log(r, 21, 25))
			if r.Intn(6) == 0 {
				res = new(big.Int).Add(pip(10000), c15Log(r, 15, 19)) // just above the minimum reserve
			}
			bps[c] = bp{crr, res}
		}
		for i, p := range c15Pools {
			r0, r1 := c15Log(r, 20, 25), c15Log(r, 20, 25)
			switch r.Intn(7) {
			case 0:
				r0, r1 = c15Log(r, 3, 9), c15Log(r, 3, 9) // tiny pool
			case 1:
				r1 = c15Log(r, 8, 14)
			}
			if p[1] == c15B1 && p[0] == 0 {
				// price of B1 in base coin near reserve / (volume * crr/100)
				r1 = c15Log(r, 21, 23)
				v := new(big.Int).Add(vol[c15B1], r1)
				r0 = new(big.Int).Mul(r1, bps[c15B1].reserve)
				r0.Mul(r0, Z(100))
				r0.Div(r0, new(big.Int).Mul(v, Z(int64(bps[c15B1].crr))))
				r0.Mul(r0, Z(int64(600+r.Intn(900))))
				r0.Div(r0, Z(1000))
				r0.Add(r0, Z(1000))
			}
			st.Pools = append(st.Pools, types.Pool{Coin0: uint64(p[0]), Coin1: uint64(p[1]), Reserve0: r0.String(), Reserve1: r1.String(), ID: uint64(i + 1)})
			if p[0] != 0 {
				vol[p[0]].Add(vol[p[0]], r0)
			}
			vol[p[1]].Add(vol[p[1]], r1)
		}
		names := map[types.CoinID]string{c15T1: "TOKENA", c15T2: "TOKENB", c15T3: "TOKENC", c15B1: "BANCORA", c15B2: "BANCORB"}
		for _, c := range c15Coins[1:] {
			cn := types.Coin{ID: uint64(c), Name: names[c], Symbol: types.StrToCoinSymbol(names[c]), Volume: vol[c].String(),
				MaxSupply: c15MaxSup.String()}
			if b, ok := bps[c]; ok {
				cn.Crr = b.crr
				cn.Reserve = b.reserve.String()
				if r.Intn(4) == 0 { // max supply near the volume: CoinSupplyOverflow reachable
					cn.MaxSupply = new(big.Int).Add(vol[c], c15Log(r, 10, 22)).String()
				}
			} else {
				owner := st.Accounts[nTraders].Address
				cn.OwnerAddress = &owner
				cn.Mintable, cn.Burnable = true, true
			}
			st.Coins = append(st.Coins, cn)
		}
	}
	nd := newNode(spec)
	g := &c15gen{nd: nd, r: r, traders: nd.Accts[:nTraders], maker: nd.Accts[nTraders], com: nd.Genesis.Commission, orders: orders}
	return g
}

// ---- routes and transactions ----------------------------------------------------------------------------

func c15Neighbours(c types.CoinID) []types.CoinID {
	var out []types.CoinID
	for _, p := range c15Pools {
		if p[0] == c {
			out = append(out, p[1])
		} else if p[1] == c {
			out = append(out, p[0])
		}
	}
	return out
}

func c15Key(a, b types.CoinID) [2]types.CoinID {
	if a < b {
		return [2]types.CoinID{a, b}
	}
	return [2]types.CoinID{b, a}
}

// route: a walk of 2..5 coins that never repeats a pool (coins may repeat: the cycle 0-T1-T2-T3-0).
func (g *c15gen) route() []types.CoinID {
	r := g.r
	for tries := 0; tries < 20; tries++ {
		want := 2 + r.Intn(4)
		if r.Intn(3) == 0 {
			want = 2
		}
		cur := c15Coins[r.Intn(len(c15Coins)-1)] // B2 has no pool
		route := []types.CoinID{cur}
		used := map[[2]types.CoinID]bool{}
		for len(route) < want {
			nb := c15Neighbours(cur)
			var cand []types.CoinID
			for _, x := range nb {
				if !used[c15Key(cur, x)] {
					cand = append(cand, x)
				}
			}
			if len(cand) == 0 {
				break
			}
			nx := cand[r.Intn(len(cand))]
			used[c15Key(cur, nx)] = true
			route = append(route, nx)
			cur = nx
		}
		if len(route) >= 2 {
			return route
		}
	}
	return []types.CoinID{0, c15T1}
}

func c15OnRoute(route []types.CoinID, a, b types.CoinID) bool {
	for i := 0; i+1 < len(route); i++ {
		if c15Key(route[i], route[i+1]) == c15Key(a, b) {
			return true
		}
	}
	return false
}

func (g *c15gen) gasFor(route []types.CoinID) types.CoinID {
	r := g.r
	// half of the time a gas coin whose commission pool is on the route
	if r.Intn(2) == 0 {
		var cand []types.CoinID
		for _, c := range []types.CoinID{c15T1, c15T3, c15B1} {
			if c15OnRoute(route, c, 0) {
				cand = append(cand, c)
			}
		}
		if len(cand) > 0 {
			return cand[r.Intn(len(cand))]
		}
	}
	switch r.Intn(12) {
	case 0, 1, 2, 3:
		return 0
	case 4, 5:
		return c15T1
	case 6:
		return c15T3
	case 7, 8:
		return c15B1
	case 9, 10:
		return c15B2
	default:
		switch r.Intn(6) {
		case 0:
			return types.CoinID(77) // does not exist
		case 1, 2:
			return c15T2 // neither pool nor reserve
		}
		return 0
	}
}

func (g *c15gen) amountOf(bal, reserve *big.Int) *big.Int {
	r := g.r
	switch r.Intn(14) {
	case 0:
		return Z(int64([]int{0, 1, 2, 3, 999, 1000, 1001, 1002, 2000}[r.Intn(9)]))
	case 1:
		return new(big.Int).Add(bal, Z(int64(r.Intn(3)))) // the whole balance (+1, +2)
	case 2:
		if reserve != nil && reserve.Sign() > 0 {
			x := new(big.Int).Mul(reserve, Z(int64(1+r.Intn(30))))
			return x.Div(x, Z(10)) // 0.1 .. 3 x the reserve
		}
	case 3:
		if reserve != nil && reserve.Sign() > 0 {
			return new(big.Int).Add(reserve, Z(int64(r.Intn(3)-1)))
		}
	case 4:
		return c15Log(r, 3, 12) // small
	}
	base := bal
	if reserve != nil && reserve.Sign() > 0 && reserve.Cmp(bal) < 0 {
		base = reserve
	}
	d := Z(int64(2 + r.Intn(5000)))
	x := new(big.Int).Div(base, d)
	return x.Add(x, Z(1))
}

func (g *c15gen) gen() *c15tx {
	r := g.r
	t := &c15tx{sender: g.traders[r.Intn(len(g.traders))], gp: 1}
	if r.Intn(8) == 0 {
		t.gp = uint32(1 + r.Intn(3))
	}
	if r.Intn(7) == 0 {
		t.payload = make([]byte, r.Intn(30))
	}
	switch x := r.Intn(13); {
	case x < 3:
		t.typ = 1
	case x < 6:
		t.typ = 2
	case x < 8:
		t.typ = 3
	case x < 10:
		t.typ = 4
	case x < 12:
		t.typ = 5
	default:
		t.typ = 6
	}
	if c15BancorOnly && t.typ <= 3 {
		t.typ = 4 + r.Intn(3)
	}
	if t.typ <= 3 {
		t.coins = g.route()
		switch r.Intn(70) {
		case 0: // back through the same pool
			t.coins = append(t.coins, t.coins[len(t.coins)-2])
		case 1: // a hop without a pool
			t.coins = append(t.coins, c15B2)
		case 2: // same coin twice
			t.coins = append(t.coins, t.coins[len(t.coins)-1])
		case 3: // too long
			for len(t.coins) < 6 {
				t.coins = append(t.coins, c15Neighbours(t.coins[len(t.coins)-1])[0])
			}
		case 4:
			t.coins = t.coins[:1]
		}
		t.gas = g.gasFor(t.coins)
		if t.typ == 3 && r.Intn(3) != 0 {
			t.gas = 0 // the gas coin of a sell-all is ignored: mostly left at the base coin
		}
		b := g.bal(t.sender.Addr, t.coins[0])
		switch t.typ {
		case 1:
			var rin *big.Int
			if len(t.coins) > 1 {
				rin, _ = g.reserves(t.coins[0], t.coins[1])
			}
			t.v1 = g.amountOf(b, rin)
		case 2:
			var rout *big.Int
			if n := len(t.coins); n > 1 {
				_, rout = g.reserves(t.coins[n-2], t.coins[n-1])
			}
			t.v1 = g.amountOf(g.bal(t.sender.Addr, t.last()), rout)
			if r.Intn(3) != 0 && rout != nil && rout.Sign() > 0 {
				x := new(big.Int).Div(rout, Z(int64(3+r.Intn(100000))))
				t.v1 = x.Add(x, Z(1))
			}
		default:
			t.v1 = Z(0)
		}
	} else {
		pick := func() types.CoinID {
			switch r.Intn(45) {
			case 0:
				return c15T1 // a token: CoinHasNotReserve
			case 1:
				return types.CoinID(88) // does not exist
			}
			return []types.CoinID{0, c15B1, c15B2}[r.Intn(3)]
		}
		cs, cb := pick(), pick()
		for cs == cb && r.Intn(15) != 0 {
			cb = pick()
		}
		t.coins = []types.CoinID{cs, cb}
		switch r.Intn(8) {
		case 0, 1, 2:
			t.gas = 0
		case 3, 4:
			t.gas = cs
		case 5:
			t.gas = cb
		default:
			t.gas = g.gasFor(nil)
		}
		if t.typ == 6 && r.Intn(3) != 0 {
			t.gas = 0
		}
		switch t.typ {
		case 4:
			t.v1 = g.amountOf(g.bal(t.sender.Addr, cs), nil)
			if r.Intn(3) == 0 {
				x := new(big.Int).Div(g.bal(t.sender.Addr, cs), Z(int64(2+r.Intn(50))))
				t.v1 = x.Add(x, Z(1))
			}
		case 5:
			t.v1 = g.amountOf(g.bal(t.sender.Addr, cb), nil)
			if r.Intn(2) == 0 {
				t.v1 = c15Log(r, 15, 22)
			}
		default:
			t.v1 = Z(0)
		}
	}
	if g.orders && r.Intn(5) == 0 {
		// the shape of the order-book model: one hop gas coin -> base coin paid in the gas coin, small against the orders
		c := []types.CoinID{c15T1, c15T3, c15B1}[r.Intn(3)]
		t.typ, t.coins, t.gas = 1, []types.CoinID{c, 0}, c
		t.v1 = c15Log(r, 10, 20)
	}
	t.v2 = Z(0)
	return t
}

func (g *c15gen) raw(t *c15tx) []byte {
	if t.v1.Sign() < 0 {
		t.v1 = Z(0)
	}
	if t.v2.Sign() < 0 {
		t.v2 = Z(0)
	}
	var typ transaction.TxType
	var data interface{}
	switch t.typ {
	case 1:
		typ, data = transaction.TypeSellSwapPool, transaction.SellSwapPoolDataV260{Coins: t.coins, ValueToSell: t.v1, MinimumValueToBuy: t.v2}
	case 2:
		typ, data = transaction.TypeBuySwapPool, transaction.BuySwapPoolDataV260{Coins: t.coins, ValueToBuy: t.v1, MaximumValueToSell: t.v2}
	case 3:
		typ, data = transaction.TypeSellAllSwapPool, transaction.SellAllSwapPoolDataV260{Coins: t.coins, MinimumValueToBuy: t.v2}
	case 4:
		typ, data = transaction.TypeSellCoin, transaction.SellCoinData{CoinToSell: t.coins[0], ValueToSell: t.v1, CoinToBuy: t.coins[1], MinimumValueToBuy: t.v2}
	case 5:
		typ, data = transaction.TypeBuyCoin, transaction.BuyCoinData{CoinToBuy: t.coins[1], ValueToBuy: t.v1, CoinToSell: t.coins[0], MaximumValueToSell: t.v2}
	default:
		typ, data = transaction.TypeSellAllCoin, transaction.SellAllCoinData{CoinToSell: t.coins[0], CoinToBuy: t.coins[1], MinimumValueToBuy: t.v2}
	}
	nonce := g.nd.App.VerifStateDeliver().Accounts.GetNonce(t.sender.Addr) + 1
	return g.nd.MkTx(t.sender, typ, data, t.gas, nonce, t.gp, t.payload)
}

func (g *c15gen) checkRun(raw []byte) (transaction.Response, bool) {
	var chk transaction.Response
	ok := g.nd.guard("CheckTx", func() {
		chk = transaction.NewExecutorV3(transaction.GetDataV3).RunTx(g.cs(), raw, nil, uint64(g.nd.Height+1), newSyncMap(), 0, false)
	})
	return chk, ok
}

// boundary asks the node itself (check mode, extreme limit) which amount its check phase computes:
// the rejection's log names it.  nil when the transaction is rejected for another reason.
func (g *c15gen) boundary(t *c15tx) *big.Int {
	save := t.v2
	defer func() { t.v2 = save }()
	if t.isSell() {
		t.v2 = new(big.Int).Mul(c15MaxSup, Z(10))
	} else {
		t.v2 = Z(0)
	}
	chk, ok := g.checkRun(g.raw(t))
	if !ok {
		return nil
	}
	var m []string
	if t.isSell() && chk.Code == 303 {
		if m = reBuyOnly.FindStringSubmatch(chk.Log); m == nil {
			m = reSpend.FindStringSubmatch(chk.Log)
		}
	} else if !t.isSell() && chk.Code == 302 {
		m = reSpend.FindStringSubmatch(chk.Log)
	}
	if m == nil {
		return nil
	}
	return ZS(m[1])
}

func (g *c15gen) chooseLimit(t *c15tx, s *big.Int) string {
	r := g.r
	if s == nil {
		if t.isSell() {
			t.v2 = Z(int64(r.Intn(2)))
		} else {
			t.v2 = new(big.Int).Set(c15MaxSup)
		}
		return "free"
	}
	pct := new(big.Int).Div(s, Z(int64(50+r.Intn(200))))
	sign := int64(1)
	if !t.isSell() {
		sign = -1 // "tighter" is smaller for a maximum
	}
	switch r.Intn(10) {
	case 0, 1, 2, 3:
		t.v2 = new(big.Int).Set(s)
		return "exact"
	case 4, 5:
		t.v2 = new(big.Int).Add(s, Z(sign))
		return "tight+1"
	case 6:
		t.v2 = new(big.Int).Sub(s, Z(sign))
		return "loose-1"
	case 7:
		t.v2 = new(big.Int).Add(s, new(big.Int).Mul(pct, Z(sign)))
		return "tight%"
	case 8:
		t.v2 = new(big.Int).Sub(s, new(big.Int).Mul(pct, Z(sign)))
		return "loose%"
	default:
		if t.isSell() {
			t.v2 = Z(0)
		} else {
			t.v2 = new(big.Int).Set(c15MaxSup)
		}
		return "none"
	}
}

// ---- state reading, shadow, synchronisation ops ------------------------------------------------------------------

func (g *c15gen) readAll() *c15Shadow {
	s := &c15Shadow{bal: map[string]*big.Int{}, pool: map[int][2]*big.Int{}, coin: map[types.CoinID][2]*big.Int{}}
	cs := g.cs()
	for i, a := range g.traders {
		for _, c := range c15Coins {
			s.bal[fmt.Sprintf("%d/%d", i, c)] = cs.Accounts().GetBalance(a.Addr, c)
		}
	}
	for i, p := range c15Pools {
		r0, r1, _ := cs.Swap().SwapPool(p[0], p[1])
		s.pool[i] = [2]*big.Int{r0, r1}
	}
	for _, c := range c15Coins[1:] {
		m := cs.Coins().GetCoin(c)
		s.coin[c] = [2]*big.Int{m.Volume(), m.Reserve()}
	}
	return s
}

func (g *c15gen) syncOps(c *Cases) {
	cur := g.readAll()
	cs := g.cs()
	for _, cid := range c15Coins[1:] {
		old, ok := [2]*big.Int{}, false
		if g.shadow != nil {
			old, ok = g.shadow.coin[cid]
		}
		nw := cur.coin[cid]
		if !ok || old[0].Cmp(nw[0]) != 0 || old[1].Cmp(nw[1]) != 0 {
			m := cs.Coins().GetCoin(cid)
			c.Op(L(Z(3), Z(int64(cid)), nw[0], nw[1], Z(int64(m.Crr())), m.MaxSupply()), L(Z(0)))
		}
	}
	for i, p := range c15Pools {
		old, ok := [2]*big.Int{}, false
		if g.shadow != nil {
			old, ok = g.shadow.pool[i]
		}
		nw := cur.pool[i]
		if !ok || old[0].Cmp(nw[0]) != 0 || old[1].Cmp(nw[1]) != 0 {
			c.Op(L(Z(2), Z(int64(p[0])), Z(int64(p[1])), nw[0], nw[1]), L(Z(0)))
		}
	}
	for i, a := range g.traders {
		for _, cid := range c15Coins {
			k := fmt.Sprintf("%d/%d", i, cid)
			if g.shadow == nil || g.shadow.bal[k].Cmp(cur.bal[k]) != 0 {
				c.Op(L(Z(1), addrZ20(a.Addr), Z(int64(cid)), cur.bal[k]), L(Z(0)))
			}
		}
	}
	g.shadow = cur
}

func c15Prices(com types.Commission) []*big.Int {
	return L(bi(com.PayloadByte), bi(com.SellBancor), bi(com.BuyBancor), bi(com.SellAllBancor), bi(com.SellPoolBase), bi(com.SellPoolDelta),
		bi(com.BuyPoolBase), bi(com.BuyPoolDelta), bi(com.SellAllPoolBase), bi(com.SellAllPoolDelta), bi(com.FailedTx))
}

func (g *c15gen) price(t *c15tx) *big.Int {
	com := g.com
	var tp *big.Int
	n := int64(len(t.coins) - 2)
	switch t.typ {
	case 1:
		tp = new(big.Int).Add(bi(com.SellPoolBase), new(big.Int).Mul(bi(com.SellPoolDelta), Z(n)))
	case 2:
		tp = new(big.Int).Add(bi(com.BuyPoolBase), new(big.Int).Mul(bi(com.BuyPoolDelta), Z(n)))
	case 3:
		tp = new(big.Int).Add(bi(com.SellAllPoolBase), new(big.Int).Mul(bi(com.SellAllPoolDelta), Z(n)))
	case 4:
		tp = bi(com.SellBancor)
	case 5:
		tp = bi(com.BuyBancor)
	default:
		tp = bi(com.SellAllBancor)
	}
	p := new(big.Int).Add(tp, new(big.Int).Mul(Z(int64(len(t.payload))), bi(com.PayloadByte)))
	return p.Mul(p, Z(int64(t.gp)))
}

// ---- oracle table: the real formula functions on every argument tuple the transaction can reach -----------------------

type c15coinP struct {
	vol, res *big.Int
	crr      uint32
}

func (g *c15gen) oracle(t *c15tx) []*big.Int {
	var out []*big.Int
	seen := map[string]bool{}
	call := func(k int, p c15coinP, a *big.Int) (f *big.Int) {
		if a == nil || a.Sign() < 0 || p.vol.Sign() <= 0 || p.res.Sign() <= 0 {
			return nil
		}
		if k == 3 && a.Cmp(p.vol) > 0 || k == 4 && a.Cmp(p.res) > 0 {
			return nil
		}
		defer func() {
			if recover() != nil {
				f = nil
			}
		}()
		switch k {
		case 1:
			f = formula.CalculatePurchaseReturn(cp(p.vol), cp(p.res), p.crr, cp(a))
		case 2:
			f = formula.CalculatePurchaseAmount(cp(p.vol), cp(p.res), p.crr, cp(a))
		case 3:
			f = formula.CalculateSaleReturn(cp(p.vol), cp(p.res), p.crr, cp(a))
		default:
			f = formula.CalculateSaleAmount(cp(p.vol), cp(p.res), p.crr, cp(a))
		}
		key := fmt.Sprintf("%d/%s/%s/%d/%s", k, p.vol, p.res, p.crr, a)
		if f != nil && !seen[key] {
			seen[key] = true
			out = append(out, Z(int64(k)), cp(p.vol), cp(p.res), Z(int64(p.crr)), cp(a), cp(f))
		}
		return f
	}
	cs := g.cs()
	params := func(c types.CoinID) (c15coinP, bool) {
		if c == 0 || !cs.Coins().Exists(c) {
			return c15coinP{}, false
		}
		m := cs.Coins().GetCoin(c)
		if m.Crr() == 0 {
			return c15coinP{}, false
		}
		return c15coinP{m.Volume(), m.Reserve(), m.Crr()}, true
	}
	price := g.price(t)
	cc := t.comCoin()
	var comRes, comPool *big.Int
	if gp, ok := params(cc); ok {
		comRes = call(4, gp, price)
		// the failed-transaction branch: the failure fee through the reserve, or the whole balance when it is smaller
		fp := new(big.Int).Add(bi(g.com.FailedTx), new(big.Int).Mul(Z(int64(len(t.payload))), bi(g.com.PayloadByte)))
		call(4, gp, fp.Mul(fp, Z(int64(t.gp))))
		call(3, gp, g.bal(t.sender.Addr, cc))
	}
	if cc != 0 && cs.Swap().SwapPoolExist(cc, 0) {
		func() {
			defer func() { recover() }()
			comPool, _ = cs.Swap().GetSwapper(cc, 0).CalculateSellForBuyWithOrders(price)
		}()
	}
	if t.typ < 4 || len(t.coins) != 2 {
		return out
	}
	variants := func(c types.CoinID) []c15coinP {
		p, ok := params(c)
		if !ok {
			return nil
		}
		v := []c15coinP{p}
		if c == cc && comRes != nil {
			v = append(v, c15coinP{new(big.Int).Sub(p.vol, comRes), new(big.Int).Sub(p.res, price), p.crr})
		}
		return v
	}
	cSell, cBuy := t.coins[0], t.coins[1]
	fromV, toV := variants(cSell), variants(cBuy)
	switch t.typ {
	case 4, 6:
		values := []*big.Int{t.v1}
		if t.typ == 6 {
			values = nil
			b := g.bal(t.sender.Addr, cSell)
			for _, cm := range []*big.Int{comRes, comPool, price} {
				if cm != nil {
					values = append(values, new(big.Int).Sub(b, cm))
				}
			}
		}
		var bips []*big.Int
		if cSell == 0 {
			bips = values
		}
		for _, fv := range fromV {
			for _, v := range values {
				if b := call(3, fv, v); b != nil {
					bips = append(bips, b)
				}
			}
		}
		for _, tv := range toV {
			for _, b := range bips {
				call(1, tv, b)
			}
		}
	case 5:
		bips := []*big.Int{}
		if cBuy == 0 {
			bips = append(bips, t.v1)
		}
		for _, tv := range toV {
			if b := call(2, tv, t.v1); b != nil {
				bips = append(bips, b)
			}
		}
		for _, fv := range fromV {
			for _, b := range bips {
				call(4, fv, b)
			}
		}
	}
	return out
}

// ---- one transaction: check, deliver, ops, monitors --------------------------------------------------------------------

type c15poolTag struct {
	CoinIn   json.Number `json:"coin_in"`
	ValueIn  string      `json:"value_in"`
	CoinOut  json.Number `json:"coin_out"`
	ValueOut string      `json:"value_out"`
}

type c15run struct {
	curveChecked int // accepted bonding-curve conversions compared with the formulas (C12)
	c        *Cases
	mon      []MonitorFailure
	dist     map[string]int
	codes    map[string]int
	limits   map[string]int
	txs      int
	accepted int
	agree    int
	viaPool  int
	onRoute  map[string]int
	boundary int
	tightAcc int
	better   int
	bookCases int
	verbose  bool
	tightRej int
	cycle    int
}

func (x *c15run) fail(key, what, where string) {
	x.mon = append(x.mon, MonitorFailure{What: what, Key: key, Replay: where})
}

func tagZ(tr TxResult, k string) *big.Int {
	v, ok := tr.Tags[k]
	if !ok {
		return nil
	}
	b, ok := new(big.Int).SetString(v, 10)
	if !ok {
		return nil
	}
	return b
}

func (g *c15gen) step(x *c15run, t *c15tx, model bool, where string) bool {
	s := g.boundary(t)
	lim := g.chooseLimit(t, s)
	raw := g.raw(t)
	kind := c15Kinds[t.typ]
	if model {
		g.syncOps(x.c)
	}
	cc := t.comCoin()
	first, last := types.CoinID(0), types.CoinID(0)
	if len(t.coins) > 0 {
		first, last = t.first(), t.last()
	}
	pre := map[types.CoinID]*big.Int{}
	for _, c := range []types.CoinID{first, last, cc} {
		pre[c] = g.bal(t.sender.Addr, c)
	}
	var enc []*big.Int
	if model {
		enc = L(Z(int64(t.typ)), addrZ20(t.sender.Addr), Z(int64(t.gas)), Z(int64(t.gp)), Z(int64(len(t.payload))), t.v1, t.v2, Z(int64(len(t.coins))))
		for _, c := range t.coins {
			enc = append(enc, Z(int64(c)))
		}
		enc = append(enc, g.oracle(t)...)
	}
	// order histories: a single hop gas coin -> base coin paid in the gas coin is also a case of the order-book model
	var bookOp []*big.Int
	if !model && t.typ == 1 && len(t.coins) == 2 && t.coins[0] == t.gas && t.coins[1] == 0 && t.gas != 0 && s != nil && g.cs().Swap().SwapPoolExist(t.gas, 0) {
		r0, r1 := g.reserves(t.gas, 0)
		bookOp = L(Z(20), r0, r1, g.price(t), t.v1)
		var ords []*big.Int
		n := 0
		for _, l := range g.cs().Swap().GetSwapper(t.gas, 0).OrdersSell(100000) {
			if l == nil {
				continue
			}
			n++
			ords = append(ords, Z(int64(l.ID())), cp(l.WantBuy), cp(l.WantSell))
		}
		bookOp = append(append(bookOp, Z(int64(n))), ords...)
	}
	// bonding-curve state of the two coins before the transaction (C12 monitor below)
	type curve struct{ vol, res *big.Int; crr uint32 }
	preCurve := map[types.CoinID]curve{}
	if t.typ >= 4 {
		cs0 := g.cs()
		for _, c := range []types.CoinID{first, last} {
			if c != 0 && cs0.Coins().Exists(c) {
				m := cs0.Coins().GetCoin(c)
				preCurve[c] = curve{cp(m.Volume()), cp(m.Reserve()), m.Crr()}
			}
		}
	}
	chk, okc := g.checkRun(raw)
	if !okc {
		x.fail("c15-panic", "check-mode RunTx of a "+kind+" transaction panicked: "+g.nd.Panics[len(g.nd.Panics)-1], where)
		return false
	}
	if model {
		x.c.Op(append(L(Z(10), Z(1)), enc...), L(Z(int64(chk.Code))))
	}
	tr, okd := g.nd.DeliverOnly(raw)
	if !okd {
		key := "c15-panic"
		if t.typ == 6 && strings.Contains(g.nd.Panics[len(g.nd.Panics)-1], "less minAmount1Out") && strings.Contains(g.nd.Stacks[len(g.nd.Stacks)-1], "sell_all_coin.go") {
			key = "c15-sellallcoin-commission-panic" // regression key of the finding repaired by 1f18dbb
		}
		x.fail(key, "DeliverTx of a "+kind+" transaction panicked: "+g.nd.Panics[len(g.nd.Panics)-1]+" "+g.nd.Stacks[len(g.nd.Stacks)-1], where)
		return false
	}
	if x.verbose {
		fmt.Printf("%s coins %v gas %d value %s limit %s (%s, boundary %v): check %d deliver %d return %s commission %s\n", kind, t.coins, t.gas, t.v1, t.v2, lim, s, chk.Code, tr.Code, tr.Tags["tx.return"], tr.Tags["tx.commission_amount"])
	}
	x.txs++
	x.dist[kind]++
	x.codes[fmt.Sprintf("%s:%d", kind, tr.Code)]++
	x.limits[lim]++
	if s != nil {
		x.boundary++
	}
	post := map[types.CoinID]*big.Int{}
	for _, c := range []types.CoinID{first, last, cc} {
		post[c] = g.bal(t.sender.Addr, c)
	}
	delta := func(c types.CoinID) *big.Int { return new(big.Int).Sub(post[c], pre[c]) }
	if model {
		if tr.Code != 0 {
			x.c.Op(append(L(Z(10), Z(0)), enc...), L(Z(int64(tr.Code))))
		} else {
			out := L(Z(0), delta(first), delta(last), delta(cc))
			for _, k := range []string{"tx.return", "tx.sell_amount", "tx.commission_amount", "tx.commission_in_base_coin"} {
				v := tagZ(tr, k)
				if v == nil {
					v = Z(-1)
				}
				out = append(out, v)
			}
			out = append(out, Z(b2i(tr.Tags["tx.commission_conversion"] == "pool")))
			pv := func(a, b types.CoinID) {
				r0, r1 := g.reserves(a, b)
				if r0 == nil {
					out = append(out, Z(-1), Z(-1))
				} else {
					out = append(out, r0, r1)
				}
			}
			for i := 0; i+1 < len(t.coins); i++ {
				pv(t.coins[i], t.coins[i+1])
			}
			pv(cc, 0)
			cs := g.cs()
			for _, c := range []types.CoinID{first, last, cc} {
				if c == 0 || !cs.Coins().Exists(c) {
					out = append(out, Z(-1), Z(-1))
				} else {
					m := cs.Coins().GetCoin(c)
					out = append(out, m.Volume(), m.Reserve())
				}
			}
			x.c.Op(append(L(Z(10), Z(0)), enc...), out)
			g.shadow = g.readAll()
		}
	}
	// ---- monitors (independent of the model) ----
	if (chk.Code == 0) != (tr.Code == 0) {
		x.fail("c15-check-deliver", fmt.Sprintf("%s transaction: check mode returned code %d, delivery right after on the same state %d", kind, chk.Code, tr.Code), where)
	} else {
		x.agree++
	}
	if s != nil {
		// the check phase's own amount is the boundary between acceptance and MinimumValueToBuyReached / MaximumValueToSellReached
		tighter := t.v2.Cmp(s) > 0
		if !t.isSell() {
			tighter = t.v2.Cmp(s) < 0
		}
		if tighter && tr.Code == 0 {
			x.fail("c15-limit-ignored", fmt.Sprintf("%s transaction accepted with limit %s although its check phase computes %s", kind, t.v2, s), where)
		}
		if tighter {
			x.tightRej++
		}
	}
	if tr.Code != 0 {
		return true
	}
	x.accepted++
	if bookOp != nil && tr.Tags["tx.commission_conversion"] == "pool" {
		if d := tagZ(tr, "tx.return"); d != nil {
			x.c.Begin(c15Model)
			x.c.Op(bookOp, L(Z(0), s, d))
			x.c.End(true, "orderbook")
			x.bookCases++
		}
	}
	desc := fmt.Sprintf("%s coins %v gas %d value %s limit %s (%s)", kind, t.coins, t.gas, t.v1, t.v2, lim)
	com := tagZ(tr, "tx.commission_amount")
	ret := tagZ(tr, "tx.return")
	if com == nil || ret == nil {
		x.fail("c15-tags", "accepted "+desc+": tx.return / tx.commission_amount tag missing", where)
		return true
	}
	if tr.Tags["tx.commission_conversion"] == "pool" {
		x.viaPool++
		if t.typ <= 3 && c15OnRoute(t.coins, cc, 0) {
			for i := 0; i+1 < len(t.coins); i++ {
				if c15Key(t.coins[i], t.coins[i+1]) == c15Key(cc, 0) {
					pos := "middle"
					if i == 0 {
						pos = "first"
					} else if i+2 == len(t.coins) {
						pos = "last"
					}
					if len(t.coins) == 2 {
						pos = "only"
					}
					dir := "gas->base"
					if t.coins[i] == 0 {
						dir = "base->gas"
					}
					x.onRoute[pos+" "+dir]++
				}
			}
		}
	}
	// C12 at the transaction level: an accepted conversion along the bonding curve moves exactly what the formulas of
	// formula/formula.go give ON THE CURVE THE CONVERSION HAPPENS ON: when the fee was taken from the reserve of one of the
	// two coins, that coin's supply and reserve without the fee (sell_coin.go / buy_coin.go / sell_all_coin.go: DummyCoin)
	if t.typ >= 4 && len(t.coins) == 2 && first != last {
		cib := tagZ(tr, "tx.commission_in_base_coin")
		at := func(c types.CoinID) (curve, bool) {
			k, ok := preCurve[c]
			if !ok || k.crr == 0 {
				return k, false
			}
			if tr.Tags["tx.commission_conversion"] == "bancor" && cc == c && cc != 0 && cib != nil {
				k = curve{new(big.Int).Sub(k.vol, com), new(big.Int).Sub(k.res, cib), k.crr}
			}
			return k, true
		}
		kf, okf := at(first)
		kl, okl := at(last)
		if (first == 0 || okf) && (last == 0 || okl) {
			var want *big.Int
			if t.isSell() {
				sold := t.v1
				if t.typ == 6 {
					sold = new(big.Int).Sub(pre[first], com)
				}
				bip := sold
				if first != 0 {
					bip = formula.CalculateSaleReturn(kf.vol, kf.res, kf.crr, sold)
				}
				want = bip
				if last != 0 {
					want = formula.CalculatePurchaseReturn(kl.vol, kl.res, kl.crr, bip)
				}
			} else {
				// buy: coins = [coin to buy ... coin to sell]?  the harness stores the route from the sold to the bought coin
				bip := t.v1
				if last != 0 {
					bip = formula.CalculatePurchaseAmount(kl.vol, kl.res, kl.crr, t.v1)
				}
				want = bip
				if first != 0 {
					want = formula.CalculateSaleAmount(kf.vol, kf.res, kf.crr, bip)
				}
			}
			x.curveChecked++
			if want.Cmp(ret) != 0 {
				x.fail("c12-tx-off-curve", fmt.Sprintf("C12: accepted %s: tx.return %s, the formulas on the curve after the fee (coin %d: supply %v reserve %v; coin %d: supply %v reserve %v; fee %s = %v base via %s) give %s",
					desc, ret, first, kf.vol, kf.res, last, kl.vol, kl.res, com, cib, tr.Tags["tx.commission_conversion"], want), where)
			}
		}
	}
	if first == last {
		x.cycle++
	}
	// regression key of the finding repaired by d03ff6d (limit orders in the commission pool, route crossing it gas coin ->
	// base coin, simulated commission swap differed from the delivered one); any other violated limit keeps the generic key
	limKey := func(generic string) string {
		if g.orders && tr.Tags["tx.commission_conversion"] == "pool" && t.typ <= 3 {
			for i := 0; i+1 < len(t.coins); i++ {
				if t.coins[i] == cc && t.coins[i+1] == 0 {
					return "c15-limit-orders-commission-pool"
				}
			}
		}
		return generic
	}
	is := func(a, b types.CoinID) *big.Int {
		if a == b {
			return Z(1)
		}
		return Z(0)
	}
	mul := func(a, b *big.Int) *big.Int { return new(big.Int).Mul(a, b) }
	// commission tag = what left the sender in the commission coin when that coin is neither end of the route
	if cc != first && cc != last {
		if new(big.Int).Neg(delta(cc)).Cmp(com) != 0 {
			x.fail("c15-tags", fmt.Sprintf("accepted %s: tx.commission_amount %s but the sender's balance of coin %d changed by %s", desc, com, cc, delta(cc)), where)
		}
	}
	if t.isSell() {
		sold := t.v1
		if t.typ == 3 || t.typ == 6 {
			sold = new(big.Int).Sub(pre[first], com)
		}
		// credited to the sender in the last coin
		credited := new(big.Int).Add(delta(last), mul(is(last, cc), com))
		credited.Add(credited, mul(is(last, first), sold))
		if credited.Cmp(t.v2) < 0 {
			x.fail(limKey("c15-sell-min"), fmt.Sprintf("accepted %s credited %s of coin %d, less than the requested minimum %s", desc, credited, last, t.v2), where)
		}
		if lim == "exact" {
			x.tightAcc++
			if ret.Cmp(t.v2) > 0 {
				x.better++
			}
		}
		if ret.Cmp(credited) != 0 {
			x.fail("c15-tags", fmt.Sprintf("accepted %s: tx.return %s but %s of coin %d were credited", desc, ret, credited, last), where)
		}
		// debited from the sender in the first coin
		debited := new(big.Int).Neg(delta(first))
		debited.Sub(debited, mul(is(first, cc), com))
		debited.Add(debited, mul(is(first, last), ret))
		if debited.Cmp(sold) != 0 {
			x.fail("c15-sell-amount", fmt.Sprintf("accepted %s debited %s of coin %d, the amount to sell is %s", desc, debited, first, sold), where)
		}
		if t.typ == 3 || t.typ == 6 {
			want := Z(0)
			if first == last {
				want = ret
			}
			if post[first].Cmp(want) != 0 {
				x.fail("c15-sell-all", fmt.Sprintf("accepted %s left %s of coin %d with the sender (balance before %s, fee %s)", desc, post[first], first, pre[first], com), where)
			}
			if sa := tagZ(tr, "tx.sell_amount"); sa == nil || sa.Cmp(pre[first]) != 0 {
				x.fail("c15-tags", fmt.Sprintf("accepted %s: tx.sell_amount %v but the balance sold with its fee was %s", desc, sa, pre[first]), where)
			}
		}
	} else {
		bought := t.v1
		debited := new(big.Int).Neg(delta(first))
		debited.Sub(debited, mul(is(first, cc), com))
		debited.Add(debited, mul(is(first, last), bought))
		if debited.Cmp(t.v2) > 0 {
			x.fail(limKey("c15-buy-max"), fmt.Sprintf("accepted %s debited %s of coin %d, more than the requested maximum %s", desc, debited, first, t.v2), where)
		}
		if lim == "exact" {
			x.tightAcc++
			if ret.Cmp(t.v2) < 0 {
				x.better++
			}
		}
		if ret.Cmp(debited) != 0 {
			x.fail("c15-tags", fmt.Sprintf("accepted %s: tx.return %s but %s of coin %d were debited", desc, ret, debited, first), where)
		}
		credited := new(big.Int).Add(delta(last), mul(is(last, cc), com))
		credited.Add(credited, mul(is(last, first), ret))
		if credited.Cmp(bought) != 0 {
			x.fail("c15-buy-amount", fmt.Sprintf("accepted %s credited %s of coin %d, the amount to buy is %s", desc, credited, last, bought), where)
		}
	}
	if tr.Tags["tx.coin_to_sell"] != strconv.Itoa(int(first)) || tr.Tags["tx.coin_to_buy"] != strconv.Itoa(int(last)) {
		x.fail("c15-tags", fmt.Sprintf("accepted %s: tags coin_to_sell %s coin_to_buy %s", desc, tr.Tags["tx.coin_to_sell"], tr.Tags["tx.coin_to_buy"]), where)
	}
	if t.typ <= 3 {
		var pt []c15poolTag
		if err := json.Unmarshal([]byte(tr.Tags["tx.pools"]), &pt); err != nil || len(pt) != len(t.coins)-1 {
			x.fail("c15-tags", fmt.Sprintf("accepted %s: tx.pools unreadable or of the wrong length: %s", desc, tr.Tags["tx.pools"]), where)
		} else {
			in0, outN := ZS(pt[0].ValueIn), ZS(pt[len(pt)-1].ValueOut)
			wantIn, wantOut := t.v1, ret
			if t.typ == 3 {
				wantIn = new(big.Int).Sub(pre[first], com)
			}
			if t.typ == 2 {
				wantIn, wantOut = ret, t.v1
			}
			if in0 == nil || outN == nil || in0.Cmp(wantIn) != 0 || outN.Cmp(wantOut) != 0 {
				x.fail("c15-tags", fmt.Sprintf("accepted %s: tx.pools says %s in, %s out; applied %s in, %s out", desc, pt[0].ValueIn, pt[len(pt)-1].ValueOut, wantIn, wantOut), where)
			}
			for i := range pt {
				if pt[i].CoinIn.String() != strconv.Itoa(int(t.coins[i])) || pt[i].CoinOut.String() != strconv.Itoa(int(t.coins[i+1])) {
					x.fail("c15-tags", fmt.Sprintf("accepted %s: tx.pools hop %d is %s -> %s", desc, i, pt[i].CoinIn, pt[i].CoinOut), where)
				}
				if i > 0 && pt[i].ValueIn != pt[i-1].ValueOut {
					x.fail("c15-tags", fmt.Sprintf("accepted %s: tx.pools hop %d takes %s, hop %d gave %s", desc, i, pt[i].ValueIn, i-1, pt[i-1].ValueOut), where)
				}
			}
		}
	}
	return true
}

// placeOrders: the maker files limit orders at and just below the current price of every pool, in both directions.
func (g *c15gen) placeOrders(x *c15run, where string) int {
	placed := 0
	r := g.r
	h := uint64(g.nd.Height + 1)
	g.nd.BeginOnly(h)
	for _, p := range c15Pools {
		for dir := 0; dir < 2; dir++ {
			a, b := p[0], p[1]
			if dir == 1 {
				a, b = b, a
			}
			// the maker sells coin a for coin b
			ra, rb := g.reserves(a, b)
			if ra == nil || ra.Cmp(Z(100000000000)) < 0 || rb.Cmp(Z(100000000000)) < 0 {
				continue
			}
			for k := 0; k < 1+r.Intn(3); k++ {
				vs := new(big.Int).Div(ra, Z(int64(20+r.Intn(100000))))
				vs.Add(vs, Z(20000000000))
				// price at the pool price (k = 0) or up to 3 % worse for the maker
				vb := new(big.Int).Div(new(big.Int).Mul(vs, rb), ra)
				if k > 0 || r.Intn(3) == 0 {
					vb.Mul(vb, Z(int64(970+r.Intn(30))))
					vb.Div(vb, Z(1000))
				}
				vb.Add(vb, Z(20000000000))
				nonce := g.nd.App.VerifStateDeliver().Accounts.GetNonce(g.maker.Addr) + 1
				raw := g.nd.MkTx(g.maker, transaction.TypeAddLimitOrder, transaction.AddLimitOrderData{CoinToSell: a, ValueToSell: vs, CoinToBuy: b, ValueToBuy: vb}, 0, nonce, 1, nil)
				tr, ok := g.nd.DeliverOnly(raw)
				if !ok {
					x.fail("c15-panic", "AddLimitOrder panicked: "+g.nd.Panics[len(g.nd.Panics)-1], where)
					return placed
				}
				if tr.Code == 0 {
					placed++
				}
			}
		}
	}
	g.nd.EndAndCommit(h)
	return placed
}


// c15History runs one history: a fresh node, 4-8 blocks of 1-4 conversions.
func c15History(x *c15run, s uint64, withOrders bool, where string) (orderHist, ordersPlaced, orderTxs int) {
	r := NewRng(s)
	g := newC15World(r, withOrders)
	nd := g.nd
	model := !withOrders
	if model {
		x.c.Begin(c15Model)
		x.c.Op(append(L(Z(0)), c15Prices(g.com)...), L(Z(0)))
	} else {
		orderHist++
		ordersPlaced += g.placeOrders(x, where)
	}
	before := x.accepted
	nb := 4 + r.Intn(5)
blocks:
	for b := 0; b < nb; b++ {
		h := uint64(nd.Height + 1)
		nd.BeginOnly(h)
		ntx := 1 + r.Intn(4)
		for j := 0; j < ntx; j++ {
			t := g.gen()
			if !g.step(x, t, model, where) {
				break blocks
			}
			if withOrders {
				orderTxs++
			}
		}
		if !nd.EndAndCommit(h) {
			x.fail("c15-panic", "EndBlock/Commit panicked: "+nd.Panics[len(nd.Panics)-1], where)
			break
		}
		if withOrders && b == nb/2 {
			ordersPlaced += g.placeOrders(x, where)
		}
	}
	nd.Cleanup()
	if model {
		x.c.End(x.accepted > before, fmt.Sprintf("accepted%d", min(x.accepted-before, 9)))
	}
	return
}

func runC15(seed uint64, n int, out, stats string, args []string) {
	if len(args) > 0 && args[0] != "history" {
		runC15Scenario(seed, out, stats, args)
		return
	}
	// the node's log.Println output is not an observable
	log.SetOutput(io.Discard)
	defer log.SetOutput(os.Stderr)
	x := &c15run{c: NewCases(out), dist: map[string]int{}, codes: map[string]int{}, limits: map[string]int{}, onRoute: map[string]int{}}
	orderHist, ordersPlaced, orderTxs := 0, 0, 0
	if len(args) == 3 && args[0] == "history" { // replay of one history: vharness c15 history <history seed> <0|1 orders>
		hs, _ := strconv.ParseUint(args[1], 10, 64)
		n = 0
		x.verbose = os.Getenv("C15_VERBOSE") != ""
		orderHist, ordersPlaced, orderTxs = c15History(x, hs, args[2] == "1", "vharness c15 history "+args[1]+" "+args[2])
	}
	for i := 0; i < n; i++ {
		s := seed*1000003 + uint64(i)
		withOrders := i%4 == 3 && !c15BancorOnly
		where := fmt.Sprintf("vharness c15 -seed %d -n %d (history %d = vharness c15 history %d %d)", seed, n, i, s, b2i(withOrders))
		oh, op, ot := c15History(x, s, withOrders, where)
		orderHist += oh
		ordersPlaced += op
		orderTxs += ot
	}
	x.c.Close()
	keys := map[string]bool{}
	for _, m := range x.mon {
		keys[m.Key] = true
	}
	var ks []string
	for k := range keys {
		ks = append(ks, k)
	}
	sort.Strings(ks)
	writeStats(stats, &Stats{Property: c15StatsProp, Seed: seed, Cases: x.c.NCases, Ops: x.c.NOps, NonTrivial: x.c.NonTriv,
		Rule: "seeded history on a real node whose genesis holds 3 tokens, 2 bancor coins and 6 swap pools (incl. the pools of three gas coins with the base coin): 4-8 blocks of 1-4 conversion transactions (sell / buy / sell-all through pools with routes of 2-5 coins that do / do not pass through the commission pool, in both orientations and at every position; sell / buy / sell-all through the bonding curve), every gas coin kind (base, pool route, reserve route, both, none), dust amounts, amounts around the reserves and balances, invalid routes; the limit is set around the amount the node's own check phase computes (exact, +-1, +-%, none); each transaction is run in check mode on the in-flight state and then delivered; three histories out of four carry no limit orders and are compared with model 19 (code, sender balance deltas in the first / last / commission coin, tx.return, tx.sell_amount, commission tags, reserves of the route's pools and of the commission pool, volume and reserve of the coins), the fourth has limit orders at and below the price of every pool and runs the monitors, and every accepted single-hop sale gas coin -> base coin paid in the gas coin through its pool is a case of the order-book model (op 20 of model 19: reserves, the order book met, price, value -> the amount the check phase computes, the amount delivered); non-trivial = at least one accepted conversion in the history / an accepted order-book sale; distinct = distinct case text",
		Dist: x.dist, Samples: x.c.Samples, Monitor: x.mon,
		Extra: map[string]interface{}{"txs": x.txs, "accepted_txs": x.accepted, "check_deliver_agreements": x.agree, "codes": x.codes,
			"limit_kinds": x.limits, "boundary_known": x.boundary, "accepted_at_exact_limit": x.tightAcc, "delivered_better_than_simulated": x.better, "order_book_model_cases": x.bookCases, "tighter_than_boundary": x.tightRej,
			"commission_through_pool": x.viaPool, "commission_pool_on_route": x.onRoute, "first_coin_is_last_coin": x.cycle,
			"curve_conversions_compared_with_formulas": x.curveChecked, "case_kinds": x.c.Dist, "histories_with_orders": orderHist, "orders_placed": ordersPlaced, "txs_with_orders": orderTxs, "monitor_keys": strings.Join(ks, ",")}})
}


// ---- scripted scenarios (replays of the findings) ------------------------------------------------------------------------
//
// regression replays of the repaired findings (silent on the repaired tree; each reports a monitor failure if it reproduces):
//   vharness c15 sim            (fixed d03ff6d, key c15-sim-inexact) the check phase's simulated commission swap was not the
//                               delivered one (commission pool crossed gas coin -> base coin): a sale was refused for a
//                               minimum that its delivery meets.  The world is Properties/C15.v's ex_world.
//   vharness c15 orders-limit   (fixed d03ff6d, key c15-limit-orders-commission-pool) the same with limit orders in the
//                               commission pool: the delivered amount violated the limit the check phase had accepted.
//   vharness c15 sellall-panic  (fixed 1f18dbb, key c15-sellallcoin-commission-panic) SellAllCoin demanded the price as
//                               minimum output of its commission swap: DeliverTx panicked with an order in that pool.
// a note outside C15 (never a monitor failure, Extra only):
//   vharness c15 underflow      BuyCoin: CalculateSaleAmountAndCheck compares reserve - COIN amount with the minimum
//                               reserve: the reserve can end far below the 10 000 BIP floor SellCoin enforces.

func c15ScenarioNode(mut func(st *types.AppState)) *Node {
	spec := &GenesisSpec{NAccounts: 3, Balance: pip(1000), NVals: 1, ValOwnersFrom: 1}
	spec.Mutate = mut
	return newNode(spec)
}

func runC15Scenario(seed uint64, out, stats string, args []string) {
	c := NewCases(out)
	c.Close()
	var mon []MonitorFailure
	extra := map[string]interface{}{}
	where := "vharness c15 " + strings.Join(args, " ")
	switch args[0] {
	case "sim":
		mk := func() *c15gen {
			nd := c15ScenarioNode(func(st *types.AppState) {
				owner := st.Accounts[0].Address
				tok := func(id uint64, name string, vol string) types.Coin {
					return types.Coin{ID: id, Name: name, Symbol: types.StrToCoinSymbol(name), Volume: vol, MaxSupply: c15MaxSup.String(), OwnerAddress: &owner, Mintable: true, Burnable: true}
				}
				st.Coins = append(st.Coins, tok(1, "TOKENA", "511000000000000000000000"), tok(2, "TOKENB", "710000000000000000000000"))
				st.Pools = append(st.Pools, types.Pool{Coin0: 0, Coin1: 1, Reserve0: "1000000000000000000000", Reserve1: "1000000000000000000000", ID: 1},
					types.Pool{Coin0: 1, Coin1: 2, Reserve0: "500000000000000000000000", Reserve1: "700000000000000000000000", ID: 2})
				st.Accounts[0].Balance = append(st.Accounts[0].Balance, types.Balance{Coin: 1, Value: "10000000000000000000000"}, types.Balance{Coin: 2, Value: "10000000000000000000000"})
			})
			return &c15gen{nd: nd, r: NewRng(seed), traders: nd.Accts[:1], maker: nd.Accts[1], com: nd.Genesis.Commission}
		}
		tx := func(g *c15gen, min *big.Int) *c15tx {
			return &c15tx{typ: 1, coins: []types.CoinID{1, 0}, v1: ZS("100000000000000000000"), v2: min, gas: 1, gp: 1, sender: g.traders[0]}
		}
		// world A: the minimum is the amount the check phase itself computes
		ga := mk()
		h := uint64(ga.nd.Height + 1)
		ga.nd.BeginOnly(h)
		sA := ga.boundary(tx(ga, Z(0)))
		ta := tx(ga, sA)
		pre := ga.bal(ta.sender.Addr, 0)
		ra, _ := ga.nd.DeliverOnly(ga.raw(ta))
		credited := new(big.Int).Sub(ga.bal(ta.sender.Addr, 0), pre)
		ga.nd.EndAndCommit(h)
		ga.nd.Cleanup()
		dA := tagZ(ra, "tx.return")
		// world B (identical): the minimum is what world A's delivery credited
		gb := mk()
		h = uint64(gb.nd.Height + 1)
		gb.nd.BeginOnly(h)
		tb := tx(gb, dA)
		chk, _ := gb.checkRun(gb.raw(tb))
		rb, _ := gb.nd.DeliverOnly(gb.raw(tb))
		gb.nd.EndAndCommit(h)
		gb.nd.Cleanup()
		extra["simulated_by_check_phase"] = sA.String()
		extra["world_A_minimum"] = sA.String()
		extra["world_A_code"] = ra.Code
		extra["world_A_tx_return"] = fmt.Sprint(dA)
		extra["world_A_credited_base_coin"] = credited.String()
		extra["world_B_minimum"] = fmt.Sprint(dA)
		extra["world_B_check_code"] = chk.Code
		extra["world_B_deliver_code"] = rb.Code
		extra["coq_witness_simulated"] = "90643920426620284400"
		extra["coq_witness_delivered"] = "90643928694082248794"
		if dA != nil && sA != nil && ra.Code == 0 && dA.Cmp(sA) > 0 && rb.Code == 303 {
			mon = append(mon, MonitorFailure{Key: "c15-sim-inexact", Replay: where,
				What: fmt.Sprintf("SellSwapPool 1->0 paid in coin 1 (commission through pool {1,0}): the check phase computes %s, the delivery credits %s; the same transaction with minimum %s is rejected with code %d although its delivery would credit exactly that", sA, dA, dA, rb.Code)})
		}
	case "underflow":
		nd := c15ScenarioNode(func(st *types.AppState) {
			st.Coins = append(st.Coins, types.Coin{ID: 1, Name: "BANCORA", Symbol: types.StrToCoinSymbol("BANCORA"), Volume: pip(100).String(), Crr: 100,
				Reserve: pip(20000).String(), MaxSupply: pip(1000000).String()})
			st.Accounts[0].Balance = append(st.Accounts[0].Balance, types.Balance{Coin: 1, Value: pip(100).String()})
		})
		g := &c15gen{nd: nd, r: NewRng(seed), traders: nd.Accts[:1], maker: nd.Accts[1], com: nd.Genesis.Commission}
		h := uint64(nd.Height + 1)
		nd.BeginOnly(h)
		// the same conversion as a sale: 99 coins for 19 800 BIP -> CoinReserveUnderflow (116)
		sell := &c15tx{typ: 4, coins: []types.CoinID{1, 0}, v1: pip(99), v2: Z(0), gas: 0, gp: 1, sender: g.traders[0]}
		chkSell, _ := g.checkRun(g.raw(sell))
		buy := &c15tx{typ: 5, coins: []types.CoinID{1, 0}, v1: pip(19800), v2: new(big.Int).Set(c15MaxSup), gas: 0, gp: 1, sender: g.traders[0]}
		rb, _ := nd.DeliverOnly(g.raw(buy))
		m := g.cs().Coins().GetCoin(1)
		extra["sell_99_coins_check_code"] = chkSell.Code
		extra["buy_19800_bip_deliver_code"] = rb.Code
		extra["coins_sold_tx_return"] = rb.Tags["tx.return"]
		extra["reserve_after"] = m.Reserve().String()
		extra["volume_after"] = m.Volume().String()
		extra["minimum_reserve"] = pip(10000).String()
		nd.EndAndCommit(h)
		nd.Cleanup()
		// not part of C15 (and not repaired): recorded in Extra only, never a monitor failure
		extra["reserve_floor_note"] = fmt.Sprintf("BuyCoin of 19800 BIP for coin 1 (reserve 20000 BIP, 100 coins, crr 100): code %d, reserve left %s (minimum reserve %s); SellCoin of the same 99 coins: code %d", rb.Code, m.Reserve(), pip(10000), chkSell.Code)
		extra["reserve_below_floor"] = rb.Code == 0 && m.Reserve().Cmp(pip(10000)) < 0
	case "sellall-panic":
		// SellAllCoin passes the price as minimum output of the commission swap (sell_all_coin.go:187, every other type
		// passes 0): with a limit order in the commission pool the swap can return one pip less -> panic in DeliverTx
		log.SetOutput(io.Discard)
		defer log.SetOutput(os.Stderr)
		nd := c15ScenarioNode(func(st *types.AppState) {
			// coin 1: bancor, 1 BIP per coin on the curve, 1.2 BIP per coin in the pool (the pool route is the cheaper one)
			st.Coins = append(st.Coins, types.Coin{ID: 1, Name: "BANCORA", Symbol: types.StrToCoinSymbol("BANCORA"), Volume: pip(1300000).String(), Crr: 100,
				Reserve: pip(1300000).String(), MaxSupply: pip(100000000).String()})
			st.Pools = append(st.Pools, types.Pool{Coin0: 0, Coin1: 1, Reserve0: pip(120000).String(), Reserve1: pip(100000).String(), ID: 1})
			st.Accounts[0].Balance = append(st.Accounts[0].Balance, types.Balance{Coin: 1, Value: pip(600000).String()})
			st.Accounts[1].Balance = append(st.Accounts[1].Balance, types.Balance{Coin: 1, Value: pip(600000).String()})
			st.Accounts[1].Balance[0].Value = pip(1000000).String()
		})
		g := &c15gen{nd: nd, r: NewRng(seed), traders: nd.Accts[:1], maker: nd.Accts[1], com: nd.Genesis.Commission}
		price := bi(g.com.SellAllBancor)
		found := false
		tries := 0
		for ; tries < 300 && !found; tries++ {
			h := uint64(nd.Height + 1)
			nd.BeginOnly(h)
			// the maker sells base coin for coin 1 at the pool price (a taker selling coin 1 meets this order first)
			r0, r1 := g.reserves(0, 1)
			vs := new(big.Int).Add(pip(int64(1+g.r.Intn(50))), g.r.BigBelow(c15Pip))
			vb := new(big.Int).Div(new(big.Int).Mul(vs, r1), r0)
			vb.Add(vb, Z(1))
			nonce := nd.App.VerifStateDeliver().Accounts.GetNonce(g.maker.Addr) + 1
			or, _ := nd.DeliverOnly(nd.MkTx(g.maker, transaction.TypeAddLimitOrder, transaction.AddLimitOrderData{CoinToSell: 0, ValueToSell: vs, CoinToBuy: 1, ValueToBuy: vb}, 0, nonce, 1, nil))
			sw := g.cs().Swap().GetSwapper(1, 0)
			com, _ := sw.CalculateSellForBuyWithOrders(price)
			var back *big.Int
			if com != nil {
				back, _ = sw.CalculateBuyForSellWithOrders(com)
			}
			if or.Code == 0 && back != nil && back.Cmp(price) < 0 {
				found = true
				t := &c15tx{typ: 6, coins: []types.CoinID{1, 0}, v1: Z(0), v2: Z(0), gas: 0, gp: 1, sender: g.traders[0]}
				raw := g.raw(t)
				chk, _ := g.checkRun(raw)
				_, ok := nd.DeliverOnly(raw)
				extra["orders_added"] = tries + 1
				extra["order_sells_base"] = vs.String()
				extra["order_wants_coin"] = vb.String()
				extra["price_in_base_coin"] = price.String()
				extra["commission_in_coin"] = com.String()
				extra["selling_the_commission_returns"] = back.String()
				extra["check_code"] = chk.Code
				extra["deliver_panicked"] = !ok
				if !ok {
					extra["panic"] = nd.Panics[len(nd.Panics)-1]
					extra["stack"] = nd.Stacks[len(nd.Stacks)-1]
					mon = append(mon, MonitorFailure{Key: "c15-sellallcoin-commission-panic", Replay: where,
						What: "SellAllCoin 1->0 accepted in check mode (code " + fmt.Sprint(chk.Code) + "), DeliverTx panics: " + nd.Panics[len(nd.Panics)-1] + " " + nd.Stacks[len(nd.Stacks)-1]})
				}
				break
			}
			nd.EndAndCommit(h)
		}
		extra["found"] = found
		nd.Cleanup()
	case "orders-limit":
		// one token, its pool with the base coin, limit orders at the pool price: buys / sells through that pool paid in
		// the token (commission swap simulated with buy = true), limit = exactly what the check phase computes
		log.SetOutput(io.Discard)
		defer log.SetOutput(os.Stderr)
		nd := c15ScenarioNode(func(st *types.AppState) {
			owner := st.Accounts[0].Address
			st.Coins = append(st.Coins, types.Coin{ID: 1, Name: "TOKENA", Symbol: types.StrToCoinSymbol("TOKENA"), Volume: "9000000000000000000000000", MaxSupply: c15MaxSup.String(), OwnerAddress: &owner, Mintable: true, Burnable: true})
			st.Pools = append(st.Pools, types.Pool{Coin0: 0, Coin1: 1, Reserve0: "3141592653589793238462643", Reserve1: "2000000000000000000000000", ID: 1})
			st.Accounts[0].Balance = append(st.Accounts[0].Balance, types.Balance{Coin: 1, Value: "3500000000000000000000000"})
			st.Accounts[1].Balance = append(st.Accounts[1].Balance, types.Balance{Coin: 1, Value: "3500000000000000000000000"})
			st.Accounts[0].Balance[0].Value = pip(5000000).String()
			st.Accounts[1].Balance[0].Value = pip(5000000).String()
		})
		g := &c15gen{nd: nd, r: NewRng(seed), traders: nd.Accts[:1], maker: nd.Accts[1], com: nd.Genesis.Commission}
		found := false
		tries := 0
		for ; tries < 400 && !found; tries++ {
			h := uint64(nd.Height + 1)
			nd.BeginOnly(h)
			if tries%3 == 0 {
				r0, r1 := g.reserves(0, 1)
				vs := new(big.Int).Add(pip(int64(1+g.r.Intn(2000))), g.r.BigBelow(c15Pip))
				vb := new(big.Int).Div(new(big.Int).Mul(vs, r1), r0)
				vb.Add(vb, Z(1))
				nonce := nd.App.VerifStateDeliver().Accounts.GetNonce(g.maker.Addr) + 1
				nd.DeliverOnly(nd.MkTx(g.maker, transaction.TypeAddLimitOrder, transaction.AddLimitOrderData{CoinToSell: 0, ValueToSell: vs, CoinToBuy: 1, ValueToBuy: vb}, 0, nonce, 1, nil))
			}
			t := &c15tx{typ: 2, coins: []types.CoinID{1, 0}, v1: c15Log(g.r, 12, 19), v2: Z(0), gas: 1, gp: 1, sender: g.traders[0]}
			if g.r.Intn(2) == 0 {
				t.typ = 1
			}
			sb := g.boundary(t)
			if sb != nil {
				t.v2 = sb
				ra, rb := g.reserves(1, 0)
				var book []string
				for _, l := range g.cs().Swap().GetSwapper(1, 0).OrdersSell(6) {
					if l == nil {
						continue
					}
					book = append(book, fmt.Sprintf("(%d, %s, %s)", l.ID(), l.WantBuy, l.WantSell))
				}
				pre0, pre1 := g.bal(t.sender.Addr, 0), g.bal(t.sender.Addr, 1)
				tr, ok := nd.DeliverOnly(g.raw(t))
				if ok && tr.Code == 0 {
					ret, com := tagZ(tr, "tx.return"), tagZ(tr, "tx.commission_amount")
					d0 := new(big.Int).Sub(g.bal(t.sender.Addr, 0), pre0)
					d1 := new(big.Int).Sub(g.bal(t.sender.Addr, 1), pre1)
					bad := false
					var what string
					if t.typ == 2 {
						debited := new(big.Int).Sub(new(big.Int).Neg(d1), com)
						bad = debited.Cmp(t.v2) > 0
						what = fmt.Sprintf("BuySwapPool [1 0] of %s base coin paid in coin 1, MaximumValueToSell %s = what the check phase computes: accepted, debited %s of coin 1 (tx.return %s) after %d orders / %d trades", t.v1, t.v2, debited, ret, tries/3+1, tries)
					} else {
						bad = d0.Cmp(t.v2) < 0
						what = fmt.Sprintf("SellSwapPool [1 0] of %s coin 1 paid in coin 1, MinimumValueToBuy %s = what the check phase computes: accepted, credited %s base coin (tx.return %s) after %d orders / %d trades", t.v1, t.v2, d0, ret, tries/3+1, tries)
					}
					if bad {
						found = true
						extra["violation"] = what
						extra["state_before"] = fmt.Sprintf("reserves of pool {1,0}: coin 1 %s, base %s; the best 6 orders met by a seller of coin 1 (id, WantBuy coin 1, WantSell base): %s; price %s; commission %s", ra, rb, strings.Join(book, " "), g.price(t), com)
						mon = append(mon, MonitorFailure{Key: "c15-limit-orders-commission-pool", Replay: where, What: what})
					}
				}
			}
			nd.EndAndCommit(h)
		}
		extra["found"] = found
		extra["tries"] = tries
		nd.Cleanup()
	default:
		panic("unknown scenario " + args[0])
	}
	writeStats(stats, &Stats{Property: "C15", Seed: seed, Rule: "scripted scenario " + args[0], Dist: map[string]int{}, Monitor: mon, Extra: extra})
}
