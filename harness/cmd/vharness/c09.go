package main

import (
	"encoding/json"
	"fmt"

	"github.com/MinterTeam/minter-go-node/coreV2/types"
)

func init() { commands["c09"] = runC09 }

func jsonStr(v interface{}) string { b, _ := json.Marshal(v); return string(b) }

// diffRuns compares two executions of the same recorded history on the projected observables.
func diffRuns(a, b *HistResult) string {
	for i := range a.Hashes {
		if i >= len(b.Hashes) {
			return fmt.Sprintf("second run stopped at block index %d (panics: %v)", i, b.Panics)
		}
		if a.Hashes[i] != b.Hashes[i] {
			return fmt.Sprintf("app hash differs at block index %d: %s vs %s (panics: %v / %v)", i, a.Hashes[i], b.Hashes[i], a.Panics, b.Panics)
		}
		if jsonStr(a.Results[i]) != jsonStr(b.Results[i]) {
			return fmt.Sprintf("DeliverTx responses differ at block index %d", i)
		}
		if a.Updates[i] != b.Updates[i] {
			return fmt.Sprintf("validator updates differ at block index %d: %s vs %s", i, a.Updates[i], b.Updates[i])
		}
		if i < len(a.Emissions) && i < len(b.Emissions) && a.Emissions[i] != b.Emissions[i] {
			return fmt.Sprintf("emission differs after block index %d: %s vs %s", i, a.Emissions[i], b.Emissions[i])
		}
		if i < len(a.Derived) && i < len(b.Derived) && a.Derived[i] != b.Derived[i] {
			return fmt.Sprintf("in-memory state derived from the persisted data differs after block index %d: {%s} vs {%s}", i, a.Derived[i], b.Derived[i])
		}
	}
	if len(a.Panics) != len(b.Panics) {
		return fmt.Sprintf("panics differ: %v vs %v", a.Panics, b.Panics)
	}
	return ""
}

// runC09: each generated history is executed straight and with restarts inserted after
// random block boundaries (including several restarts in a row); every later response,
// app hash, emission, versions, validators and the final export must be identical.
func runC09(seed uint64, n int, out, stats string, _ []string) {
	var mon []MonitorFailure
	dist := map[string]int{}
	nontriv := 0
	var samples []string
	restarts := 0
	for i := 0; i < n; i++ {
		s := seed*1000003 + uint64(i)
		r := NewRng(s ^ 0xabcdef)
		spec := stdSpec(NewRng(s))
		g := &genOpts{Blocks: 30 + r.Intn(50), TxPerBlock: 5, Absences: true, Evidence: r.Intn(4) == 0, TimeWalk: r.Intn(2) == 0}
		if r.Intn(3) == 0 {
			g.Weights = map[string]int{"createpool": 4, "addorder": 10, "remorder": 6, "sellpool": 6, "buypool": 4, "createtoken": 3, "createcoin": 2, "send": 2, "addliq": 2}
		}
		if r.Intn(3) == 0 {
			// a network version voted by all validators and adopted a few blocks into the history
			spec.Versions = []types.Version{{Name: "v300", Height: 0}, {Name: "v310", Height: 0}, {Name: "v320", Height: 0}}
			g.NetworkUpdate = true
			dist["with-network-update"]++
		}
		h, _, w := genHistory(s, spec, g)
		straight, n1 := runRecorded(h, &execOpts{})
		exp1 := jsonStr(n1.Export())
		ver1 := jsonStr(n1.App.VerifAppDB().GetVersions())
		n1.Cleanup()
		ra := map[int64]int{}
		mode := r.Intn(3)
		for b := int64(InitialHeight); b < int64(InitialHeight+len(h.Blocks)); b++ {
			switch mode {
			case 0: // restart after every block
				ra[b] = 1
			case 1:
				if r.Intn(6) == 0 {
					ra[b] = 1 + r.Intn(3)
				}
			default:
				if r.Intn(15) == 0 {
					ra[b] = 2
				}
			}
		}
		for _, k := range ra {
			restarts += k
		}
		restarted, n2 := runRecorded(h, &execOpts{RestartAfter: ra})
		exp2 := jsonStr(n2.Export())
		ver2 := jsonStr(n2.App.VerifAppDB().GetVersions())
		n2.Cleanup()
		d := diffRuns(straight, restarted)
		if d == "" && exp1 != exp2 {
			d = "final state export differs"
		}
		if d == "" && ver1 != ver2 {
			d = "versions differ"
		}
		dist[fmt.Sprintf("mode%d", mode)]++
		if d != "" {
			key := "c09-restart-diverges"
			mon = append(mon, MonitorFailure{What: "C09: restarted node diverges from the straight run: " + d, Key: key,
				Replay: fmt.Sprintf("vharness c09 -seed %d -n %d (history %d, seed %d, restarts after %v)", seed, n, i, s, ra)})
		}
		if len(ra) > 0 {
			nontriv++
		}
		if len(samples) < 2 {
			samples = append(samples, fmt.Sprintf("history seed=%d blocks=%d restarts_after=%v tx kinds=%v", s, len(h.Blocks), ra, w.TypeDist))
		}
	}
	writeStats(stats, &Stats{Property: "C09", Seed: seed, Cases: n, Ops: restarts, NonTrivial: nontriv,
		Rule: "seeded history (30-80 blocks, txs incl. pools/orders, absences, evidence, block-time walk) executed on two real nodes: straight, and with the process re-created on the same stores after every block / random blocks (1-3 restarts in a row); compared: every DeliverTx response, validator updates, app hash, emission and the in-memory state derived from persisted data (grace periods, executor) after each block, final export and versions; a third of the histories adopt a network version voted at run time; non-trivial = at least one restart; distinct by seed",
		Dist: dist, Samples: samples, Monitor: mon, Extra: map[string]interface{}{"restarts": restarts}})
	NewCases(out).Close()
}
