package main

// workload.go — seeded generator of mostly-valid transaction histories for the in-process
// node, plus a separate malformed stream.  Every random choice comes from one Rng.

import (
	"bytes"
	"fmt"
	"hash"
	"math/big"
	"strconv"

	"golang.org/x/crypto/sha3"

	"github.com/MinterTeam/minter-go-node/coreV2/check"
	"github.com/MinterTeam/minter-go-node/coreV2/transaction"
	"github.com/MinterTeam/minter-go-node/coreV2/types"
	"github.com/MinterTeam/minter-go-node/crypto"
	"github.com/MinterTeam/minter-go-node/rlp"
)

type World struct {
	N        *Node
	R        *Rng
	nonce    map[types.Address]uint64 // next nonces within the current block
	Coins    []types.CoinID           // known coin ids (0 = base)
	Bancor   []types.CoinID
	Tokens   []types.CoinID
	Pools    [][2]types.CoinID
	Orders   []uint32
	OrderOf  map[uint32]orderRef // accepted limit orders: owner and coins
	Locks    []lockRef           // accepted Lock transactions
	Cands    []types.Pubkey // candidates known to exist (genesis + declared)
	NextVal  int
	Symbols  int
	Checks   [][]byte
	TypeDist map[string]int
	CodeDist map[string]int
	Weights  map[string]int // tx kind weights
	Owner    map[types.Pubkey]Acct
	GasFromHeld bool // pay the commission in a custom coin the sender holds, half of the time
	OddChecks   bool // a quarter of the issued checks are validly signed but structurally unusual (lock longer/shorter than 65 bytes, long nonce)
	Control  map[types.Pubkey]types.Address // control address where it differs from the owner's (set by accepted EditCandidate)
	CoinOwner map[types.CoinID]Acct
	Stakes   []stakeRef
}

type stakeRef struct {
	A    Acct
	Pub  types.Pubkey
	Coin types.CoinID
}

func newWorld(n *Node, r *Rng) *World {
	w := &World{N: n, R: r, nonce: map[types.Address]uint64{}, Coins: []types.CoinID{0}, TypeDist: map[string]int{}, CodeDist: map[string]int{}}
	w.Owner = map[types.Pubkey]Acct{}
	w.Control = map[types.Pubkey]types.Address{}
	w.CoinOwner = map[types.CoinID]Acct{}
	for i, c := range n.Genesis.Candidates {
		w.Cands = append(w.Cands, c.PubKey)
		w.Owner[c.PubKey] = n.Accts[i%len(n.Accts)]
		w.Stakes = append(w.Stakes, stakeRef{n.Accts[i%len(n.Accts)], c.PubKey, 0})
	}
	w.NextVal = len(n.Vals)
	return w
}

func (w *World) beginBlock() { w.nonce = map[types.Address]uint64{} }

func (w *World) nextNonce(a Acct) uint64 {
	if v, ok := w.nonce[a.Addr]; ok {
		return v
	}
	v := w.N.Nonce(a) + 1
	w.nonce[a.Addr] = v
	return v
}

func (w *World) acct() Acct { return w.N.Accts[w.R.Intn(len(w.N.Accts))] }
func (w *World) coin() types.CoinID {
	return w.Coins[w.R.Intn(len(w.Coins))]
}
func (w *World) cand() types.Pubkey { return w.Cands[w.R.Intn(len(w.Cands))] }

func (w *World) amount(max int64) *big.Int {
	switch w.R.Intn(10) {
	case 0:
		return Z(int64(w.R.Intn(3)))
	case 1:
		return new(big.Int).Mul(pip(max), Z(1000)) // likely more than the balance
	default:
		x := w.R.BigBelow(pip(max))
		return x.Add(x, Z(1))
	}
}

func (w *World) bal(a Acct, c types.CoinID) *big.Int {
	return w.N.App.CurrentState().Accounts().GetBalance(a.Addr, c)
}

// holder picks an account with a positive balance of coin c (falls back to any account).
func (w *World) holder(c types.CoinID) Acct {
	start := w.R.Intn(len(w.N.Accts))
	for i := 0; i < len(w.N.Accts); i++ {
		a := w.N.Accts[(start+i)%len(w.N.Accts)]
		if w.bal(a, c).Sign() > 0 {
			return a
		}
	}
	return w.acct()
}

// part returns a mostly-affordable amount of coin c for account a.
func (w *World) part(a Acct, c types.CoinID) *big.Int {
	b := w.bal(a, c)
	switch w.R.Intn(12) {
	case 0:
		return Z(int64(w.R.Intn(3)))
	case 1:
		return new(big.Int).Add(b, Z(int64(1+w.R.Intn(3)))) // slightly more than the balance
	case 2:
		return new(big.Int).Set(b) // everything (fee in the same coin then fails)
	default:
		d := Z(int64(2 + w.R.Intn(2000)))
		x := new(big.Int).Div(b, d)
		return x.Add(x, Z(1))
	}
}

func (w *World) gasCoin() types.CoinID {
	if w.R.Intn(4) == 0 && len(w.Coins) > 1 {
		return w.coin()
	}
	return 0
}

type lockRef struct {
	Addr  types.Address
	Coin  types.CoinID
	Value *big.Int
	Due   uint64
}

type orderRef struct {
	Owner     Acct
	Sell, Buy types.CoinID
}

type GenTx struct {
	Kind   string
	Raw    []byte
	Sender Acct
	Nonce  uint64
	Type   transaction.TxType
	Data   interface{}
	Gas    types.CoinID
}

func (w *World) sym() types.CoinSymbol {
	w.Symbols++
	var s types.CoinSymbol
	copy(s[:], []byte(fmt.Sprintf("VRF%05d", w.Symbols)))
	return s
}

var kinds = []string{"send", "multisend", "createcoin", "createtoken", "sellcoin", "buycoin", "sellallcoin", "mint", "burn",
	"declare", "delegate", "unbond", "move", "lockstake", "lock", "candon", "candoff", "createpool", "addliq", "remliq",
	"sellpool", "buypool", "sellallpool", "addorder", "remorder", "redeem", "editcand", "editcomm", "sethalt", "voteupdate", "editowner", "recreate", "multisig"}

func (w *World) pickKind() string {
	if w.Weights != nil {
		tot := 0
		for _, k := range kinds {
			tot += w.Weights[k]
		}
		if tot > 0 {
			x := w.R.Intn(tot)
			for _, k := range kinds {
				x -= w.Weights[k]
				if x < 0 {
					return k
				}
			}
		}
	}
	return kinds[w.R.Intn(len(kinds))]
}

func (w *World) pool() ([2]types.CoinID, bool) {
	if len(w.Pools) == 0 {
		return [2]types.CoinID{}, false
	}
	return w.Pools[w.R.Intn(len(w.Pools))], true
}

// Gen produces the next transaction of the structured stream.
func (w *World) Gen() *GenTx {
	for tries := 0; tries < 50; tries++ {
		k := w.pickKind()
		a := w.acct()
		var typ transaction.TxType
		var data interface{}
		var fixedGas types.CoinID
		useFixedGas := false
		switch k {
		case "send":
			c := w.coin()
			a = w.holder(c)
			typ, data = transaction.TypeSend, transaction.SendData{Coin: c, To: w.acct().Addr, Value: w.part(a, c)}
		case "multisend":
			var l []transaction.MultisendDataItem
			c := w.coin()
			a = w.holder(c)
			for i := 0; i < 1+w.R.Intn(4); i++ {
				l = append(l, transaction.MultisendDataItem{Coin: c, To: w.acct().Addr, Value: new(big.Int).Div(w.part(a, c), Z(5))})
			}
			typ, data = transaction.TypeMultisend, transaction.MultisendData{List: l}
		case "createcoin":
			res := new(big.Int).Add(w.R.BigBelow(pip(100000)), pip(10000))
			amt := new(big.Int).Add(w.R.BigBelow(pip(1000000)), pip(1))
			maxs := new(big.Int).Mul(amt, Z(int64(1+w.R.Intn(1000))))
			if w.R.Intn(4) == 0 { // hardly any room below the maximum supply: purchases run into the cap
				maxs = new(big.Int).Add(amt, w.R.BigBelow(pip(60)))
			}
			typ, data = transaction.TypeCreateCoin, transaction.CreateCoinData{Name: "c", Symbol: w.sym(), InitialAmount: amt, InitialReserve: res,
				ConstantReserveRatio: uint32(10 + w.R.Intn(91)), MaxSupply: capAround(amt, maxs)}
		case "createtoken":
			amt := new(big.Int).Add(w.R.BigBelow(pip(1000000)), pip(1))
			typ, data = transaction.TypeCreateToken, transaction.CreateTokenData{Name: "t", Symbol: w.sym(), InitialAmount: amt,
				MaxSupply: capAround(amt, new(big.Int).Mul(amt, Z(int64(1+w.R.Intn(10))))), Mintable: w.R.Intn(3) != 0, Burnable: w.R.Intn(3) != 0}
		case "sellcoin", "buycoin", "sellallcoin":
			if len(w.Bancor) == 0 {
				continue
			}
			c1 := w.Bancor[w.R.Intn(len(w.Bancor))]
			c2 := types.CoinID(0)
			if w.R.Intn(3) == 0 && len(w.Bancor) > 1 {
				c2 = w.Bancor[w.R.Intn(len(w.Bancor))]
			}
			if w.R.Bool() {
				c1, c2 = c2, c1
			}
			if c1 == c2 {
				continue
			}
			a = w.holder(c1)
			if k == "buycoin" {
				a = w.holder(c2)
			}
			switch k {
			case "sellcoin":
				typ, data = transaction.TypeSellCoin, transaction.SellCoinData{CoinToSell: c1, ValueToSell: w.part(a, c1), CoinToBuy: c2, MinimumValueToBuy: Z(int64(w.R.Intn(2)))}
			case "buycoin":
				typ, data = transaction.TypeBuyCoin, transaction.BuyCoinData{CoinToBuy: c1, ValueToBuy: w.amount(100), CoinToSell: c2, MaximumValueToSell: pip(100000000)}
			default:
				typ, data = transaction.TypeSellAllCoin, transaction.SellAllCoinData{CoinToSell: c1, CoinToBuy: c2, MinimumValueToBuy: Z(0)}
			}
		case "mint", "burn":
			if len(w.Tokens) == 0 {
				continue
			}
			c := w.Tokens[w.R.Intn(len(w.Tokens))]
			a = w.holder(c)
			if k == "mint" {
				if o, ok := w.CoinOwner[c]; ok && w.R.Intn(5) != 0 {
					a = o
				}
				typ, data = transaction.TypeMintToken, transaction.MintTokenData{Coin: c, Value: w.amount(1000)}
			} else {
				typ, data = transaction.TypeBurnToken, transaction.BurnTokenDataV260{Coin: c, Value: w.part(a, c)}
			}
		case "declare":
			v := mkVal(w.NextVal)
			w.NextVal++
			w.Cands = append(w.Cands, v.Pub)
			w.Owner[v.Pub] = a
			typ, data = transaction.TypeDeclareCandidacy, transaction.DeclareCandidacyData{Address: a.Addr, PubKey: v.Pub, Commission: uint32(w.R.Intn(101)), Coin: w.coinForStake(), Stake: new(big.Int).Add(w.amount(5000), pip(100))}
		case "delegate":
			c := w.coinForStake()
			a = w.holder(c)
			typ, data = transaction.TypeDelegate, transaction.DelegateDataV260{PubKey: w.cand(), Coin: c, Value: w.part(a, c)}
		case "unbond":
			sr := w.Stakes[w.R.Intn(len(w.Stakes))]
			a = sr.A
			val := w.amount(500)
			// boundaries of the amount an account can take out: its waitlist entry W and its applied stake S at this candidate
			st := w.N.App.CurrentState()
			S := st.Candidates().GetStakeValueOfAddress(sr.Pub, a.Addr, sr.Coin)
			W := big.NewInt(0)
			if it := st.WaitList().Get(a.Addr, sr.Pub, sr.Coin); it != nil {
				W = it.Value
			}
			if S == nil {
				S = big.NewInt(0)
			}
			if (w.R.Intn(3) == 0 || (W.Sign() > 0 && w.R.Intn(3) != 0)) && (S.Sign() > 0 || W.Sign() > 0) {
				ws := new(big.Int).Add(W, S)
				cands := []*big.Int{cp(S), cp(ws), new(big.Int).Add(ws, Z(1)), new(big.Int).Add(ws, W), new(big.Int).Add(new(big.Int).Add(ws, W), Z(1)), cp(W), new(big.Int).Add(W, Z(1)),
					new(big.Int).Add(W, new(big.Int).Div(S, Z(2)))}
				val = cands[w.R.Intn(len(cands))]
				if val.Sign() < 1 {
					val = Z(1)
				}
			}
			typ, data = transaction.TypeUnbond, transaction.UnbondDataV3{PubKey: sr.Pub, Coin: sr.Coin, Value: val}
		case "move":
			to := w.cand()
			if w.R.Intn(8) == 0 {
				to = mkVal(9000 + w.R.Intn(5)).Pub // not a candidate
			}
			sr := w.Stakes[w.R.Intn(len(w.Stakes))]
			a = sr.A
			mv := w.amount(500)
			if w.R.Intn(4) == 0 { // the whole stake
				if S := w.N.App.CurrentState().Candidates().GetStakeValueOfAddress(sr.Pub, a.Addr, sr.Coin); S != nil && S.Sign() > 0 {
					mv = cp(S)
				}
			}
			typ, data = transaction.TypeMoveStake, transaction.MoveStakeData{FromPubKey: sr.Pub, ToPubKey: to, Coin: sr.Coin, Value: mv}
		case "lockstake":
			typ, data = transaction.TypeLockStake, transaction.LockStakeData{}
		case "lock":
			c := w.coin()
			a = w.holder(c)
			due := w.N.Height + 2 + int64(w.R.Intn(40))
			if w.R.Intn(4) == 0 { // far in the future: beyond the unbond / move periods
				due = w.N.Height + 600 + int64(w.R.Intn(3000))
			}
			typ, data = transaction.TypeLock, transaction.LockData{DueBlock: uint32(due), Coin: c, Value: w.part(a, c)}
		case "candon", "candoff":
			pk := w.cand()
			if o, ok := w.Owner[pk]; ok && w.R.Intn(6) != 0 {
				a = o
			}
			if k == "candon" {
				typ, data = transaction.TypeSetCandidateOnline, transaction.SetCandidateOnData{PubKey: pk}
			} else {
				typ, data = transaction.TypeSetCandidateOffline, transaction.SetCandidateOffData{PubKey: pk}
			}
		case "createpool":
			c0 := w.coin()
			a = w.holder(c0)
			var c1 types.CoinID
			found := false
			for t := 0; t < 8; t++ {
				c1 = w.coin()
				if c1 != c0 && w.bal(a, c1).Sign() > 0 {
					found = true
					break
				}
			}
			if !found {
				continue
			}
			v0, v1 := new(big.Int).Add(w.part(a, c0), Z(100000)), new(big.Int).Add(w.part(a, c1), Z(100000))
			if w.R.Intn(4) == 0 { // a small pool: a commission swap through it moves its price noticeably
				v0, v1 = pip(int64(5+w.R.Intn(20))), pip(int64(5+w.R.Intn(20)))
			}
			typ, data = transaction.TypeCreateSwapPool, transaction.CreateSwapPoolData{Coin0: c0, Coin1: c1, Volume0: v0, Volume1: v1}
		case "addliq":
			p, ok := w.pool()
			if !ok {
				continue
			}
			if w.R.Bool() {
				p[0], p[1] = p[1], p[0]
			}
			a = w.holder(p[0])
			typ, data = transaction.TypeAddLiquidity, transaction.AddLiquidityDataV260{Coin0: p[0], Coin1: p[1], Volume0: new(big.Int).Div(w.part(a, p[0]), Z(4)), MaximumVolume1: new(big.Int).Mul(pip(100000000), pip(1))}
		case "remliq":
			p, ok := w.pool()
			if !ok {
				continue
			}
			lp := types.CoinID(0)
			if _, _, id := w.N.App.CurrentState().Swap().SwapPool(p[0], p[1]); id != 0 {
				if ci := w.N.App.CurrentState().Coins().GetCoinBySymbol(transaction.LiquidityCoinSymbol(id), 0); ci != nil {
					lp = ci.ID()
				}
			}
			a = w.holder(lp)
			typ, data = transaction.TypeRemoveLiquidity, transaction.RemoveLiquidityV240{Coin0: p[0], Coin1: p[1], Liquidity: w.part(a, lp), MinimumVolume0: Z(0), MinimumVolume1: Z(0)}
		case "sellpool", "buypool", "sellallpool":
			route := w.route()
			if route == nil {
				continue
			}
			a = w.holder(route[0])
			switch k {
			case "sellpool":
				typ, data = transaction.TypeSellSwapPool, transaction.SellSwapPoolDataV260{Coins: route, ValueToSell: new(big.Int).Div(w.part(a, route[0]), Z(3)), MinimumValueToBuy: Z(int64(w.R.Intn(2)))}
			case "buypool":
				typ, data = transaction.TypeBuySwapPool, transaction.BuySwapPoolDataV260{Coins: route, ValueToBuy: w.amount(100), MaximumValueToSell: pip(100000000)}
			default:
				typ, data = transaction.TypeSellAllSwapPool, transaction.SellAllSwapPoolDataV260{Coins: route, MinimumValueToBuy: Z(0)}
			}
		case "addorder":
			p, ok := w.pool()
			if !ok {
				continue
			}
			if w.R.Bool() {
				p[0], p[1] = p[1], p[0]
			}
			a = w.holder(p[0])
			vs := new(big.Int).Add(new(big.Int).Div(w.part(a, p[0]), Z(10)), Z(20000000000))
			// price near the pool price: buy = sell * r1/r0 * (0.6..1.5)
			x0, x1, _ := w.N.App.CurrentState().Swap().SwapPool(p[0], p[1])
			vb := new(big.Int).Set(vs)
			if x0 != nil && x0.Sign() > 0 {
				vb = new(big.Int).Div(new(big.Int).Mul(vs, x1), x0)
				vb.Mul(vb, Z(int64(600+w.R.Intn(900))))
				vb.Div(vb, Z(1000))
			}
			vb.Add(vb, Z(20000000000))
			if w.R.Intn(4) == 0 && x0 != nil && x0.Sign() > 0 {
				// a tiny order at 1.000..1.015 of the pool price: the next trade (or a commission swap) through the pool fills it
				vs = new(big.Int).Mul(Z(int64(1+w.R.Intn(50))), ZS("1000000000000000"))
				vb = new(big.Int).Div(new(big.Int).Mul(vs, x1), x0)
				vb.Mul(vb, Z(int64(1000+w.R.Intn(16))))
				vb.Div(vb, Z(1000))
				vb.Add(vb, Z(1))
			}
			typ, data = transaction.TypeAddLimitOrder, transaction.AddLimitOrderData{CoinToSell: p[0], ValueToSell: vs, CoinToBuy: p[1], ValueToBuy: vb}
		case "remorder":
			id := uint32(1 + w.R.Intn(len(w.Orders)+2))
			if len(w.Orders) > 0 && w.R.Intn(4) != 0 {
				id = w.Orders[w.R.Intn(len(w.Orders))]
			}
			typ, data = transaction.TypeRemoveLimitOrder, transaction.RemoveLimitOrderData{ID: id}
			if o, ok := w.OrderOf[id]; ok && w.R.Intn(4) != 0 {
				a = o.Owner
				if w.R.Bool() {
					// pay the commission in the coin the order wants to buy: the commission swap runs through the order's own pool
					fixedGas, useFixedGas = o.Buy, true
				}
			}
		case "redeem":
			// the sender redeems a check issued by another account
			cc := w.coin()
			issuer := w.holder(cc)
			raw, proof := w.mkCheck(issuer, a, cc, new(big.Int).Div(w.part(issuer, cc), Z(7)), uint64(w.N.Height+int64(w.R.Intn(30))-2), 0)
			w.Checks = append(w.Checks, raw)
			typ, data = transaction.TypeRedeemCheck, transaction.RedeemCheckData{RawCheck: raw, Proof: proof}
		case "editcand", "editcomm", "sethalt", "voteupdate":
			pk := w.cand()
			if o, ok := w.Owner[pk]; ok && w.R.Intn(6) != 0 {
				a = o
			}
			if ca, ok := w.Control[pk]; ok && w.R.Intn(3) == 0 {
				// the control address tries an owner-only operation
				for _, x := range w.N.Accts {
					if x.Addr == ca {
						a = x
					}
				}
			}
			switch k {
			case "editcand":
				typ, data = transaction.TypeEditCandidate, transaction.EditCandidateData{PubKey: pk, RewardAddress: w.acct().Addr, OwnerAddress: a.Addr, ControlAddress: w.acct().Addr}
			case "editcomm":
				typ, data = transaction.TypeEditCandidateCommission, transaction.EditCandidateCommission{PubKey: pk, Commission: uint32(w.R.Intn(101))}
			case "sethalt":
				typ, data = transaction.TypeSetHaltBlock, transaction.SetHaltBlockData{PubKey: pk, Height: uint64(w.N.Height + 1000000 + int64(w.R.Intn(5)))}
			default:
				typ, data = transaction.TypeVoteUpdate, transaction.VoteUpdateDataV230{Version: "v999", PubKey: pk, Height: uint64(w.N.Height + 1000000 + int64(w.R.Intn(5)))}
			}
		case "editowner":
			if w.Symbols == 0 {
				continue
			}
			var s types.CoinSymbol
			copy(s[:], []byte(fmt.Sprintf("VRF%05d", 1+w.R.Intn(w.Symbols))))
			typ, data = transaction.TypeEditCoinOwner, transaction.EditCoinOwnerData{Symbol: s, NewOwner: w.acct().Addr}
		case "recreate":
			if w.Symbols == 0 {
				continue
			}
			var s types.CoinSymbol
			copy(s[:], []byte(fmt.Sprintf("VRF%05d", 1+w.R.Intn(w.Symbols))))
			amt := new(big.Int).Add(w.R.BigBelow(pip(1000000)), pip(1))
			typ, data = transaction.TypeRecreateToken, transaction.RecreateTokenData{Name: "r", Symbol: s, InitialAmount: amt, MaxSupply: capAround(amt, new(big.Int).Mul(amt, Z(2))), Mintable: true, Burnable: true}
		case "multisig":
			typ, data = transaction.TypeCreateMultisig, transaction.CreateMultisigData{Threshold: uint32(1 + w.R.Intn(3)), Weights: []uint32{1, 2, uint32(w.R.Intn(3))}, Addresses: []types.Address{w.N.Accts[0].Addr, w.N.Accts[1].Addr, w.N.Accts[2%len(w.N.Accts)].Addr}}
		default:
			continue
		}
		gas := w.gasCoin()
		if w.GasFromHeld && w.R.Bool() {
			var held []types.CoinID
			for _, c := range w.Bancor {
				if w.bal(a, c).Sign() > 0 {
					held = append(held, c)
				}
			}
			if len(held) > 0 {
				gas = held[w.R.Intn(len(held))]
			}
		}
		if useFixedGas {
			gas = fixedGas
		}
		nonce := w.nextNonce(a)
		w.nonce[a.Addr] = nonce + 1 // optimistic: assumes this transaction is accepted
		gp := uint32(1)
		if w.R.Intn(10) == 0 {
			gp = uint32(1 + w.R.Intn(3))
		}
		var payload []byte
		if w.R.Intn(6) == 0 {
			payload = make([]byte, w.R.Intn(40))
		}
		raw := w.N.MkTx(a, typ, data, gas, nonce, gp, payload)
		w.TypeDist[k]++
		return &GenTx{Kind: k, Raw: raw, Sender: a, Nonce: nonce, Type: typ, Data: data, Gas: gas}
	}
	return nil
}

func (w *World) coinForStake() types.CoinID {
	if w.R.Intn(4) == 0 && len(w.Bancor) > 0 {
		return w.Bancor[w.R.Intn(len(w.Bancor))]
	}
	return 0
}

func (w *World) route() []types.CoinID {
	p, ok := w.pool()
	if !ok {
		return nil
	}
	route := []types.CoinID{p[0], p[1]}
	if w.R.Bool() {
		route = []types.CoinID{p[1], p[0]}
	}
	// extend the route through other pools
	for hops := 0; hops < 3 && w.R.Intn(3) == 0; hops++ {
		last := route[len(route)-1]
		for _, q := range w.Pools {
			var nxt types.CoinID
			if q[0] == last {
				nxt = q[1]
			} else if q[1] == last {
				nxt = q[0]
			} else {
				continue
			}
			dup := false
			for _, c := range route {
				if c == nxt {
					dup = true
				}
			}
			if !dup {
				route = append(route, nxt)
				break
			}
		}
	}
	return route
}

// capAround: the maximum supply of a coin / token to be created with the initial amount amt: one creation in ten asks
// for a maximum just below the initial amount (must be refused) or equal to it (no room at all); decided by the digits
// of amt so that no further random draw is consumed
func capAround(amt, normal *big.Int) *big.Int {
	switch new(big.Int).Mod(amt, Z(10)).Int64() {
	case 0:
		return new(big.Int).Sub(amt, Z(1))
	case 1:
		return new(big.Int).Set(amt)
	}
	return normal
}

// mkCheck issues a check signed by issuer with a lock for redeemer.
func (w *World) mkCheck(issuer, redeemer Acct, coin types.CoinID, value *big.Int, due uint64, gasCoin types.CoinID) ([]byte, [65]byte) {
	pass := mkAcct(7777 + w.R.Intn(3)).Key // the "password" key
	w.Symbols += 0
	nonceB := []byte(strconv.Itoa(int(w.R.U64() % 1000000)))
	chk := check.Check{Nonce: nonceB, ChainID: types.CurrentChainID, DueBlock: due, Coin: coin, Value: value, GasCoin: gasCoin}
	lock, err := crypto.Sign(chk.HashWithoutLock().Bytes(), pass)
	if err != nil {
		panic(err)
	}
	chk.Lock = big.NewInt(0).SetBytes(lock)
	if nv, _ := strconv.Atoi(string(nonceB)); w.OddChecks && nv%4 == 0 {
		// the issuer's signature covers the lock, so these reach the code behind the signature checks
		switch (nv / 4) % 4 {
		case 0:
			chk.Lock = big.NewInt(0).SetBytes(append([]byte{1}, lock...)) // 66 bytes
		case 1:
			chk.Lock = big.NewInt(0).SetBytes(append(bytes.Repeat([]byte{0xff}, 8), lock...)) // 73 bytes
		case 2:
			chk.Lock = big.NewInt(0).SetBytes(lock[3:]) // 62 bytes
		default:
			chk.Nonce = append(chk.Nonce, bytes.Repeat([]byte{'9'}, 12)...) // 13-18 byte nonce, around the 16-byte limit
		}
	}
	if err := chk.Sign(issuer.Key); err != nil {
		panic(err)
	}
	raw, _ := rlp.EncodeToBytes(chk)
	var senderAddressHash types.Hash
	hw := cryptoKeccak()
	_ = rlp.Encode(hw, []interface{}{redeemer.Addr})
	hw.Sum(senderAddressHash[:0])
	sig, err := crypto.Sign(senderAddressHash.Bytes(), pass)
	if err != nil {
		panic(err)
	}
	var proof [65]byte
	copy(proof[:], sig)
	return raw, proof
}

// Observe updates the world from a delivered transaction's result.
func (w *World) Observe(g *GenTx, r TxResult) {
	w.CodeDist[fmt.Sprintf("%s:%d", g.Kind, r.Code)]++
	if r.Code != 0 {
		return
	}
	switch d := g.Data.(type) {
	case transaction.CreateCoinData:
		id, _ := strconv.Atoi(r.Tags["tx.coin_id"])
		w.Coins = append(w.Coins, types.CoinID(id))
		w.Bancor = append(w.Bancor, types.CoinID(id))
		_ = d
	case transaction.CreateTokenData:
		id, _ := strconv.Atoi(r.Tags["tx.coin_id"])
		w.Coins = append(w.Coins, types.CoinID(id))
		w.Tokens = append(w.Tokens, types.CoinID(id))
		w.CoinOwner[types.CoinID(id)] = g.Sender
	case transaction.RecreateTokenData:
		id, _ := strconv.Atoi(r.Tags["tx.coin_id"])
		w.Coins = append(w.Coins, types.CoinID(id))
		w.Tokens = append(w.Tokens, types.CoinID(id))
	case transaction.CreateSwapPoolData:
		w.Pools = append(w.Pools, [2]types.CoinID{d.Coin0, d.Coin1})
		if id, err := strconv.Atoi(r.Tags["tx.pool_token_id"]); err == nil {
			w.Coins = append(w.Coins, types.CoinID(id))
		}
	case transaction.DelegateDataV260:
		w.Stakes = append(w.Stakes, stakeRef{g.Sender, d.PubKey, d.Coin})
	case transaction.DeclareCandidacyData:
		w.Stakes = append(w.Stakes, stakeRef{g.Sender, d.PubKey, d.Coin})
	case transaction.EditCandidateData:
		if d.ControlAddress != d.OwnerAddress {
			w.Control[d.PubKey] = d.ControlAddress
		} else {
			delete(w.Control, d.PubKey)
		}
		for _, x := range w.N.Accts {
			if x.Addr == d.OwnerAddress {
				w.Owner[d.PubKey] = x
			}
		}
	case transaction.LockData:
		w.Locks = append(w.Locks, lockRef{g.Sender.Addr, d.Coin, new(big.Int).Set(d.Value), uint64(d.DueBlock)})
	case transaction.AddLimitOrderData:
		if id, err := strconv.Atoi(r.Tags["tx.order_id"]); err == nil {
			w.Orders = append(w.Orders, uint32(id))
			if w.OrderOf == nil {
				w.OrderOf = map[uint32]orderRef{}
			}
			w.OrderOf[uint32(id)] = orderRef{g.Sender, d.CoinToSell, d.CoinToBuy}
		}
	}
}

// Malformed returns a transaction from the malformed stream.
func (w *World) Malformed(valid []byte) []byte {
	b := append([]byte{}, valid...)
	switch w.R.Intn(6) {
	case 0: // truncated
		if len(b) > 2 {
			b = b[:1+w.R.Intn(len(b)-1)]
		}
	case 1: // bit flip
		if len(b) > 0 {
			b[w.R.Intn(len(b))] ^= byte(1 << uint(w.R.Intn(8)))
		}
	case 2: // random bytes
		b = make([]byte, w.R.Intn(200))
		for i := range b {
			b[i] = byte(w.R.U64())
		}
	case 3: // trailing garbage
		b = append(b, byte(w.R.U64()), byte(w.R.U64()))
	case 4: // length-field mutation
		if len(b) > 3 {
			b[1+w.R.Intn(2)] = byte(w.R.U64())
		}
	case 5: // nested lists
		d := 1 + w.R.Intn(2000)
		b = make([]byte, d)
		for i := range b {
			b[i] = 0xc1
		}
		b[d-1] = 0xc0
	}
	return b
}

func cryptoKeccak() hashState { return sha3.NewLegacyKeccak256() }

type hashState = hash.Hash
