package main

import (
	"fmt"
	"math/big"

	eventsdb "github.com/MinterTeam/minter-go-node/coreV2/events"
	"github.com/MinterTeam/minter-go-node/coreV2/dao"
	"github.com/MinterTeam/minter-go-node/coreV2/developers"
	"github.com/MinterTeam/minter-go-node/coreV2/transaction"
	"github.com/MinterTeam/minter-go-node/coreV2/types"
)

func init() { commands["c19"] = runC19 }

func addrZ(a types.Address) *big.Int { return new(big.Int).SetBytes(a[:]) }

func b2z(b bool) *big.Int {
	if b {
		return Z(1)
	}
	return Z(0)
}

// runC19: the reward accrual of EndBlock and the payout of PayRewardsV5Fix on the real node,
// block by block, against Model/Rewards.v; plus the C19 monitors on the observed values.
func runC19(seed uint64, n int, out, stats string, _ []string) {
	c := NewCases(out)
	var mon []MonitorFailure
	payouts, accruals, x3pays, dropped, setChanges, switchedOff, fullUnbonds := 0, 0, 0, 0, 0, 0, 0
	for i := 0; i < n; i++ {
		s := seed*1000003 + uint64(i)
		r := NewRng(s)
		nv := 2 + r.Intn(4)
		spec := &GenesisSpec{NAccounts: 6, Balance: pip(100000000), NVals: nv, ExtraCands: r.Intn(3)}
		for j := 0; j < nv+spec.ExtraCands; j++ {
			switch r.Intn(4) {
			case 0:
				spec.Stakes = append(spec.Stakes, pip(int64(1000+r.Intn(5))))
			case 1:
				spec.Stakes = append(spec.Stakes, new(big.Int).Add(r.Big(26), pip(1000)))
			default:
				spec.Stakes = append(spec.Stakes, pip(int64(1000+r.Intn(1000000))))
			}
		}
		spec.Mutate = func(st *types.AppState) {
			for ci := range st.Candidates {
				cd := &st.Candidates[ci]
				cd.Commission = uint64(r.Intn(101))
				// extra delegators in the genesis stakes
				total := bi(cd.TotalBipStake)
				for k := 0; k < r.Intn(4); k++ {
					var v *big.Int
					switch r.Intn(3) {
					case 0:
						v = Z(int64(1 + r.Intn(1000)))
					case 1:
						v = r.Big(22)
					default:
						v = pip(int64(1 + r.Intn(5000)))
					}
					if v.Sign() == 0 {
						v = Z(1)
					}
					owner := mkAcct((ci + k + 1) % 6).Addr
					dup := false
					for _, s0 := range cd.Stakes {
						if s0.Owner == owner {
							dup = true
						}
					}
					if dup {
						continue
					}
					cd.Stakes = append(cd.Stakes, types.Stake{Owner: owner, Coin: 0, Value: v.String(), BipValue: v.String()})
					total.Add(total, v)
				}
				cd.TotalBipStake = total.String()
				for vi := range st.Validators {
					if st.Validators[vi].PubKey == cd.PubKey {
						st.Validators[vi].TotalBipStake = total.String()
					}
				}
			}
			// the extra candidates start offline: they join the validator set only after a
			// SetCandidateOnline transaction, possibly in the middle of a payout period
			for ci := nv; ci < len(st.Candidates); ci++ {
				st.Candidates[ci].Status = 1
			}
			// some accounts have their stake locked (x3 rewards)
			for ai := range st.Accounts {
				if r.Intn(3) == 0 {
					st.Accounts[ai].LockStakeUntilBlock = uint64(InitialHeight + 100000)
				}
			}
			if r.Intn(4) == 0 {
				st.PrevReward.Reward = "0" // zero reward: the second x3 branch
			}
		}
		nd := newNode(spec)
		where := fmt.Sprintf("vharness c19 -seed %d -n %d (history %d, seed %d)", seed, n, i, s)
		nb := 13 + r.Intn(40)
		earlyEv := 2 + r.Intn(16)
		prev := nd.Export()
		c.Begin(6)
		nontriv := false
		for b := 0; b < nb; b++ {
			opts := BlockOpts{}
			if r.Intn(3) == 0 {
				opts.Absent = map[int]bool{r.Intn(nv): true}
				if r.Intn(3) == 0 {
					opts.Absent[r.Intn(nv)] = true
				}
			}
			if r.Intn(25) == 0 || (b == earlyEv && spec.ExtraCands > 0) {
				// (early evidence: the extra candidates are not validators before the first period ends,
				// so a drop now refreshes the set with a newcomer in the middle of a period)
				opts.Evidence = []int{r.Intn(nv)}
			}
			var txs [][]byte
			fees := big.NewInt(0)
			offIdx := -1
			if spec.ExtraCands > 0 && b == earlyEv-1-r.Intn(2) {
				for ci := nv; ci < nv+spec.ExtraCands; ci++ {
					txs = append(txs, nd.MkTx(nd.Accts[ci%len(nd.Accts)], transaction.TypeSetCandidateOnline, transaction.SetCandidateOnData{PubKey: nd.Vals[ci].Pub}, 0, 0, 1, nil))
				}
			} else if (nd.Height+1)%stakePeriod == 0 && r.Intn(2) == 0 {
				// a delegator takes its whole stake out in the payout block itself: the stake still earned this period's share
				var cands []int
				for ci := range prev.Candidates {
					for _, sk := range prev.Candidates[ci].Stakes {
						if sk.Coin == 0 && sk.Owner != prev.Candidates[ci].OwnerAddress && bi(sk.Value).Sign() > 0 {
							cands = append(cands, ci)
							break
						}
					}
				}
				if len(cands) > 0 {
					cd := prev.Candidates[cands[r.Intn(len(cands))]]
					for _, sk := range cd.Stakes {
						if sk.Coin == 0 && sk.Owner != cd.OwnerAddress && bi(sk.Value).Sign() > 0 {
							for _, a := range nd.Accts {
								if a.Addr == sk.Owner {
									txs = append(txs, nd.MkTx(a, transaction.TypeUnbond, transaction.UnbondDataV3{PubKey: cd.PubKey, Coin: 0, Value: bi(sk.Value)}, 0, 0, 1, nil))
									fullUnbonds++
								}
							}
							break
						}
					}
				}
			} else if r.Intn(12) == 0 && len(prev.Validators) > 2 {
				// a current validator is switched off by its owner: it is marked to-drop in this block
				// (its accrued reward returns to the pool, it accrues nothing, the set is refreshed)
				offIdx = r.Intn(nv)
				txs = append(txs, nd.MkTx(nd.Accts[offIdx%len(nd.Accts)], transaction.TypeSetCandidateOffline, transaction.SetCandidateOffData{PubKey: nd.Vals[offIdx].Pub}, 0, 0, 1, nil))
			} else if r.Intn(3) == 0 {
				a := nd.Accts[r.Intn(len(nd.Accts))]
				txs = append(txs, nd.MkTx(a, transaction.TypeSend, transaction.SendData{Coin: 0, To: nd.Accts[0].Addr, Value: Z(1)}, 0, 0, uint32(1+r.Intn(3)), nil))
			}
			// who is present / dropped is decided in BeginBlock; read it after the block from what the node recorded
			calcReward, safeReward := nd.App.CurrentState().App().Reward()
			br := nd.Block(txs, &opts)
			if br.Panic != "" {
				mon = append(mon, MonitorFailure{What: "panic: " + br.Panic, Key: "c07-panic", Replay: where})
				break
			}
			for _, tr := range br.Txs {
				if v, ok := tr.Tags["tx.commission_in_base_coin"]; ok && tr.Code == 0 {
					fees.Add(fees, bi(v))
				} else if v, ok := tr.Tags["tx.fail_fee"]; ok {
					fees.Add(fees, bi(v))
				}
			}
			if offIdx >= 0 && (len(br.Txs) != 1 || br.Txs[0].Code != 0) {
				offIdx = -1
			}
			cur := nd.Export()
			h := uint64(nd.Height)
			isPayout := h%stakePeriod == 0
			// validators as they were during this block: the previous export (set changes apply at the end of EndBlock)
			absent := opts.Absent
			in := L(Z(1), cp(calcReward), fees, Z(int64(len(prev.Validators))))
			drops := map[types.Pubkey]bool{}
			type vrow struct {
				stake, accum *big.Int
				present, drop bool
			}
			var rows []vrow
			for _, v := range prev.Validators {
				idx := -1
				for k, x := range nd.Vals {
					if x.Pub == v.PubKey {
						idx = k
					}
				}
				present := !absent[idx]
				// dropped during this BeginBlock: byzantine evidence, or too many absences -> read from the candidate status change
				drop := false
				for _, e := range opts.Evidence {
					if e == idx {
						for _, cd := range prev.Candidates {
							if cd.PubKey == v.PubKey && cd.Status == 2 {
								drop = true
							}
						}
					}
				}
				stake := bi(v.TotalBipStake)
				if drop {
					stake = big.NewInt(0)
					dropped++
				}
				if idx == offIdx && idx >= 0 {
					drop = true
					dropped++
					switchedOff++
				}
				drops[v.PubKey] = drop
				rows = append(rows, vrow{stake, bi(v.AccumReward), present, drop})
				in = append(in, stake, bi(v.AccumReward), b2z(present), b2z(drop))
			}
			// the observed accumulated rewards right after accrual: at payout blocks they are paid out
			// in the same EndBlock, so compare accruals only on non-payout blocks where the set did not change
			sameSet := len(prev.Validators) == len(cur.Validators)
			if sameSet {
				for k := range cur.Validators {
					if cur.Validators[k].PubKey != prev.Validators[k].PubKey {
						sameSet = false
					}
				}
			}
			jailed := false // absence beyond the limit also drops a validator; detect through candidate status
			for _, cd := range cur.Candidates {
				for _, pc := range prev.Candidates {
					if pc.PubKey == cd.PubKey && pc.Status == 2 && cd.Status != 2 && len(opts.Evidence) == 0 && !(offIdx >= 0 && cd.PubKey == nd.Vals[offIdx].Pub) {
						jailed = true
					}
				}
			}
			if !isPayout && sameSet && !jailed {
				var outv []*big.Int
				for _, v := range cur.Validators {
					outv = append(outv, bi(v.AccumReward))
				}
				outv = append(outv, new(big.Int).Sub(bi(cur.TotalSlashed), bi(prev.TotalSlashed)))
				// byzantine slashing also adds to total slashed: skip the remainder comparison then
				if len(opts.Evidence) == 0 {
					c.Op(in, outv)
					accruals++
					// monitor: only present validators accrue; total conserved
					sumBefore, sumAfter := big.NewInt(0), big.NewInt(0)
					for k, v := range cur.Validators {
						d := new(big.Int).Sub(bi(v.AccumReward), rows[k].accum)
						if !rows[k].present && d.Sign() != 0 {
							mon = append(mon, MonitorFailure{What: fmt.Sprintf("C19: validator %d recorded absent in block %d accrued %s", k, h, d), Key: "c19-absent-accrues", Replay: where})
						}
						sumBefore.Add(sumBefore, rows[k].accum)
						sumAfter.Add(sumAfter, bi(v.AccumReward))
					}
					tot := new(big.Int).Add(sumBefore, calcReward)
					tot.Add(tot, fees)
					got := new(big.Int).Add(sumAfter, outv[len(outv)-1])
					if tot.Cmp(got) != 0 {
						mon = append(mon, MonitorFailure{What: fmt.Sprintf("C19: block %d: accrued %s + remainder differs from reward+fees %s", h, got, tot), Key: "c19-accrual-sum", Replay: where})
					}
				}
			}
			if !isPayout && !sameSet {
				// the validator set was refreshed in the middle of a period (a validator dropped): a validator
				// that stays keeps exactly its accrual, a newcomer starts from zero, a dropped one's reward
				// went back into this block's pool (C19: accrued rewards belong to who earned them)
				rwt := new(big.Int).Add(calcReward, fees)
				totalPower := big.NewInt(0)
				for _, rw := range rows {
					if rw.drop {
						rwt.Add(rwt, rw.accum)
					}
					if rw.present && !rw.drop {
						totalPower.Add(totalPower, rw.stake)
					}
				}
				if totalPower.Sign() == 0 {
					totalPower = big.NewInt(1)
				}
				for _, v := range cur.Validators {
					want := big.NewInt(0)
					found := false
					for k, pv := range prev.Validators {
						if pv.PubKey == v.PubKey {
							found = true
							if !rows[k].drop {
								want = new(big.Int).Set(rows[k].accum)
								if rows[k].present {
									sh := new(big.Int).Mul(rwt, rows[k].stake)
									want.Add(want, sh.Div(sh, totalPower))
								}
							}
						}
					}
					setChanges++
					if !jailed && bi(v.AccumReward).Cmp(want) != 0 {
						mon = append(mon, MonitorFailure{What: fmt.Sprintf("C19: validator set refreshed in block %d: validator %s (in previous set: %v) holds accumulated reward %s, earned %s", h, v.PubKey.String(), found, v.AccumReward, want), Key: "c19-set-change-accum", Replay: where})
					}
				}
				if len(opts.Evidence) == 0 && !jailed {
					// what the floor shares leave over goes to total-slashed, and nothing else does: a validator dropped
					// in this block must not have taken a share on top of the pool
					rem := new(big.Int).Set(rwt)
					for _, rw := range rows {
						if rw.present && !rw.drop {
							sh := new(big.Int).Mul(rwt, rw.stake)
							rem.Sub(rem, sh.Div(sh, totalPower))
						}
					}
					if got := new(big.Int).Sub(bi(cur.TotalSlashed), bi(prev.TotalSlashed)); got.Cmp(rem) != 0 {
						mon = append(mon, MonitorFailure{What: fmt.Sprintf("C19: block %d (a validator was dropped): total-slashed changed by %s, the remainder of reward+fees+returned rewards %s after the shares of the present validators is %s", h, got, rwt, rem), Key: "c19-dropped-remainder", Replay: where})
					}
				}
			}
			if isPayout && len(opts.Evidence) == 0 && !jailed {
				// accumulated rewards right before the payout = model accrual of this block
				// (compute with exact integers here, mirroring nothing: use the node's own reward events to check the sums)
				evs := nd.App.VerifEventsDB().LoadEvents(uint32(h))
				byVal := map[types.Pubkey][]*eventsdb.RewardEvent{}
				var order []types.Pubkey
				for _, e := range evs {
					if re, ok := e.(*eventsdb.RewardEvent); ok {
						if _, seen := byVal[re.ValidatorPubKey]; !seen {
							order = append(order, re.ValidatorPubKey)
						}
						byVal[re.ValidatorPubKey] = append(byVal[re.ValidatorPubKey], re)
					}
				}
				// accrual of this block in exact integers (same formula as the model; the model itself is checked on the other blocks)
				rwt := new(big.Int).Add(calcReward, fees)
				totalPower := big.NewInt(0)
				for _, rw := range rows {
					if rw.drop {
						rwt.Add(rwt, rw.accum)
					}
					if rw.present && !rw.drop {
						totalPower.Add(totalPower, rw.stake)
					}
				}
				if totalPower.Sign() == 0 {
					totalPower = big.NewInt(1)
				}
				for k := range rows {
					if rows[k].drop {
						rows[k].accum = big.NewInt(0)
					}
				}
				accumNow := make([]*big.Int, len(rows))
				totalAccum, totalStakes := big.NewInt(0), big.NewInt(0)
				for k, rw := range rows {
					accumNow[k] = new(big.Int).Set(rw.accum)
					if rw.present && !rw.drop {
						sh := new(big.Int).Mul(rwt, rw.stake)
						sh.Div(sh, totalPower)
						accumNow[k].Add(accumNow[k], sh)
					}
					totalAccum.Add(totalAccum, accumNow[k])
					totalStakes.Add(totalStakes, rw.stake)
				}
				if totalAccum.Sign() == 1 {
					totalStakes = big.NewInt(0)
				}
				for k, v := range prev.Validators {
					var cand *types.Candidate
					for ci := range prev.Candidates {
						if prev.Candidates[ci].PubKey == v.PubKey {
							cand = &prev.Candidates[ci]
						}
					}
					if cand == nil {
						continue
					}
					in2 := L(Z(2), cp(calcReward), cp(safeReward), Z(stakePeriod), totalAccum, totalStakes, accumNow[k], rows[k].stake,
						Z(int64(cand.Commission)), addrZ(cand.RewardAddress), Z(int64(len(cand.Stakes))))
					hasX3 := false
					for _, st := range cand.Stakes {
						x3 := nd.App.CurrentState().Accounts().GetLockStakeUntilBlock(st.Owner) > h
						if x3 {
							hasX3 = true
						}
						in2 = append(in2, addrZ(st.Owner), Z(int64(st.Coin)), bi(st.BipValue), b2z(x3))
					}
					evl := byVal[v.PubKey]
					// observed: the reward events of this validator in order
					paid := big.NewInt(0)
					var pays []*big.Int
					for _, re := range evl {
						role := int64(0)
						owner := addrZ(re.Address)
						switch re.Role {
						case eventsdb.RoleValidator.String():
							role = 1
						case eventsdb.RoleDelegator.String():
							role = 2
						case eventsdb.RoleDAO.String():
							role, owner = 3, Z(0)
						case eventsdb.RoleDevelopers.String():
							role, owner = 4, Z(0)
						}
						pays = append(pays, Z(role), owner, Z(int64(re.ForCoin)), bi(re.Amount))
						paid.Add(paid, bi(re.Amount))
					}
					// more / slashed are not observable per validator: compare only the payments (encode the
					// model's more/slashed as wildcards by recomputing them from the events is impossible), so the
					// expected output carries the model-independent part; see op 2 handling in the dispatcher
					outv := append(L(Z(0), Z(-999), Z(-999), Z(int64(len(evl)))), pays...)
					c.Op(in2, outv)
					payouts++
					if hasX3 {
						x3pays++
					}
					nontriv = true
					// monitors: split and no over-payment for validators without locked stakes
					if !hasX3 {
						if paid.Cmp(accumNow[k]) > 0 {
							mon = append(mon, MonitorFailure{What: fmt.Sprintf("C19: validator %d paid %s at block %d, accrued %s", k, paid, h, accumNow[k]), Key: "c19-overpaid", Replay: where})
						}
						want := new(big.Int).Div(new(big.Int).Mul(accumNow[k], Z(int64(dao.Commission))), Z(100))
						for _, re := range evl {
							if re.Role == eventsdb.RoleDAO.String() && bi(re.Amount).Cmp(want) != 0 {
								mon = append(mon, MonitorFailure{What: fmt.Sprintf("C19: DAO share %s of accrued %s at block %d, 10%% is %s", re.Amount, accumNow[k], h, want), Key: "c19-split", Replay: where})
							}
						}
						_ = developers.Commission
					}
				}
			}
			prev = cur
		}
		nd.Cleanup()
		c.End(nontriv, fmt.Sprintf("vals%d", nv))
	}
	c.Close()
	writeStats(stats, &Stats{Property: "C19", Seed: seed, Cases: c.NCases, Ops: c.NOps, NonTrivial: c.NonTriv,
		Rule: "history of 13-52 blocks on the real node (2-5 validators with 0-3 extra delegators each, stakes 1000 BIP+1 pip .. 10^26, commissions 0-100, locked (x3) accounts, absences, evidence, fee-paying txs, zero block reward in a quarter of the histories); every non-payout block's accrual and every payout block's reward events are compared with Model/Rewards.v; non-trivial = at least one payout compared; distinct = distinct case text",
		Dist: c.Dist, Samples: c.Samples, Monitor: mon,
		Extra: map[string]interface{}{"accrual_blocks": accruals, "validator_payouts": payouts, "payouts_with_locked_stakes": x3pays, "dropped_validators": dropped, "validators_switched_off_by_their_owner": switchedOff, "whole_stake_unbonds_in_a_payout_block": fullUnbonds, "validators_checked_after_mid_period_set_change": setChanges}})
}
