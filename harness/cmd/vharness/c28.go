package main

// c28.go — property C28 (block reward follows the price rule and stops at the emission cap).
//
// Node level: histories on the real in-process node with a BIP/USDT pool (coin id 1993) in the
// genesis, block times walking across the 12:00-14:59 window and the 3 h spacing, the pool price
// moved by real SellSwapPool transactions, genesis price records with Off / Last / Time variants
// and genesis emissions just below the 10^10 BIP cap.  Per block the reward part of BeginBlock and
// of EndBlock is compared with Model/RewardRule.v (dispatch model 13), and the monitors below are
// evaluated directly on what the node did.
//
// Package level: AppDB.UpdatePriceFix alone on arbitrary stored records / reserves (boundaries of
// the -10 % rule, zero reserves, missing record), and the 4th-root oracle check on each value.

import (
	"fmt"
	"math/big"
	"os"
	"time"

	"github.com/MinterTeam/minter-go-node/config"
	"github.com/MinterTeam/minter-go-node/coreV2/appdb"
	eventsdb "github.com/MinterTeam/minter-go-node/coreV2/events"
	"github.com/MinterTeam/minter-go-node/coreV2/transaction"
	"github.com/MinterTeam/minter-go-node/coreV2/types"
)

func init() { commands["c28"] = runC28 }

var (
	c28Cap   = ZS("10000000000000000000000000000") // 10^10 BIP, the property's cap
	c28K     = ZS("350000000000000000000")         // 350 * 10^18
	c28Step  = ZS("10000000000000000000")          // 10 BIP
	c28Model = 13
)

func pow4(x *big.Int) *big.Int { y := new(big.Int).Mul(x, x); return y.Mul(y, y) }

// c28RootOK: x is within relative 2^-40 (+1 unit) of the largest X with X^4*r0 <= (350*10^18)^4*r1.
func c28RootOK(r0, r1, x *big.Int) bool {
	if x.Sign() < 0 || r0.Sign() <= 0 {
		return false
	}
	t := new(big.Int).Rsh(x, 40)
	t.Add(t, Z(1))
	lo := new(big.Int).Sub(x, t)
	if lo.Sign() < 0 {
		lo = Z(0)
	}
	hi := new(big.Int).Add(x, t)
	hi.Add(hi, Z(1))
	rhs := new(big.Int).Mul(pow4(c28K), r1)
	return new(big.Int).Mul(pow4(lo), r0).Cmp(rhs) <= 0 && rhs.Cmp(new(big.Int).Mul(pow4(hi), r0)) < 0
}

// c28Pct: floor of the exact percentage change of the price r1/r0 against R1/R0 (positive reserves).
func c28Pct(R0, R1, r0, r1 *big.Int) *big.Int {
	num := new(big.Int).Sub(new(big.Int).Mul(r1, R0), new(big.Int).Mul(R1, r0))
	num.Mul(num, Z(100))
	den := new(big.Int).Mul(r0, R1)
	q, m := new(big.Int).QuoRem(num, den, new(big.Int))
	if m.Sign() != 0 && (m.Sign() < 0) != (den.Sign() < 0) {
		q.Sub(q, Z(1))
	}
	return q
}

// exact integer 4th root of (350e18)^4 * r1 / r0 (used only to place genesis values sensibly)
func c28Root(r0, r1 *big.Int) *big.Int {
	n := new(big.Int).Mul(pow4(c28K), r1)
	n.Div(n, r0)
	x := new(big.Int).Sqrt(new(big.Int).Sqrt(n))
	return x
}

// worst observed deviation of priceCount from the exact root (statistics only)
var c28MaxAbsErr = big.NewInt(0)
var c28MinRelBits = 1000

func c28NoteErr(r0, r1, x *big.Int) {
	if r0.Sign() <= 0 || r1.Sign() <= 0 {
		return
	}
	X := c28Root(r0, r1)
	d := new(big.Int).Abs(new(big.Int).Sub(x, X))
	if d.Cmp(c28MaxAbsErr) > 0 {
		c28MaxAbsErr.Set(d)
	}
	if d.Sign() > 0 && X.Sign() > 0 {
		if bits := X.BitLen() - d.BitLen(); bits < c28MinRelBits {
			c28MinRelBits = bits
		}
	}
}

// nextAt: the first instant strictly after now whose UTC time of day is hh:mm:ss.ns
func nextAt(now time.Time, hh, mm, ss, ns int) time.Time {
	t := time.Date(now.Year(), now.Month(), now.Day(), hh, mm, ss, ns, time.UTC)
	for !t.After(now) {
		t = t.Add(24 * time.Hour)
	}
	return t
}

type c28Obs struct {
	reward, safe, last, r0, r1, emission, zero, total *big.Int
	t                                                 int64
	off                                               bool
}

func c28Observe(nd *Node, withTotal bool) c28Obs {
	var o c28Obs
	o.reward, o.safe = nd.App.CurrentState().App().Reward()
	t, r0, r1, last, off := nd.App.VerifAppDB().GetPrice()
	o.t, o.r0, o.r1, o.last, o.off = t.UnixNano(), cp(r0), cp(r1), cp(last), off
	o.emission = cp(nd.App.VerifAppDB().Emission())
	o.zero = nd.App.CurrentState().Accounts().GetBalance(types.Address{}, 0)
	if withTotal {
		ex := nd.Export()
		o.total = holdings(&ex).baseTotal()
	}
	return o
}

// c28ZeroBIP (argument "zerobip"): the genesis price record carries a zero BIP reserve, as a
// hand-written genesis of a chain without price history would; see the report (C07 link).
var c28ZeroBIP = false

func runC28(seed uint64, n int, out, stats string, args []string) {
	for _, a := range args {
		if a == "zerobip" {
			c28ZeroBIP = true
		}
	}
	c := NewCases(out)
	var mon []MonitorFailure
	ex := map[string]int{}
	maxOver := big.NewInt(0)
	suffix := ""
	if c28ZeroBIP {
		suffix = " zerobip"
	}
	for i := 0; i < n; i++ {
		s := seed*1000003 + uint64(i)
		c28History(c, s, fmt.Sprintf("vharness c28 -seed %d -n %d%s (history %d, seed %d)", seed, n, suffix, i, s), &mon, ex, maxOver)
	}
	// package level: UpdatePriceFix alone + oracle validation, 25 cases per history
	c28Package(c, seed, 25*n, fmt.Sprintf("vharness c28 -seed %d -n %d (UpdatePriceFix cases)", seed, n), &mon, ex)
	c.Close()
	extra := map[string]interface{}{"max_cap_overshoot_pip": maxOver.String(), "pricecount_max_abs_error_pip": c28MaxAbsErr.String(),
		"pricecount_min_agreeing_bits": c28MinRelBits}
	for k, v := range ex {
		extra[k] = v
	}
	writeStats(stats, &Stats{Property: "C28", Seed: seed, Cases: c.NCases, Ops: c.NOps, NonTrivial: c.NonTriv,
		Rule: "node histories of 60-200 blocks (stake period 12) with a BIP/USDT pool (coin 1993) in the genesis; block-time steps from seconds to many hours, half of the period-start blocks placed on 11:59:59.999999999 / 12:00 / 14:59:59.999999999 / 15:00 / previous update + 3 h (+1 ns); pool price moved by real SellSwapPool transactions (targets -8.9..-9.1 %, -9.9..-10.1 %, -11 %, -50 %, +1..+30 %); genesis price record with Off, Last, Time (0, recent, >= 2^63) and reserves variants; a third of the histories start 1-40 block rewards below the cap; every block's reward / safe reward / stored price record (BeginBlock part) and emission / zero-address credit / minted base coin (EndBlock part) compared with Model/RewardRule.v; plus AppDB.UpdatePriceFix alone on generated records and reserves including the exact -10 % boundary, zero reserves and a missing record, and the 4th-root check of every priceCount; non-trivial = at least one reward update executed; distinct = distinct case text",
		Dist: c.Dist, Samples: c.Samples, Monitor: mon, Extra: extra})
}

func c28History(c *Cases, s uint64, where string, mon *[]MonitorFailure, ex map[string]int, maxOver *big.Int) {
	// NewRng(s) and NewRng(s+1) produce the same stream shifted by one draw (the seed is scaled by
	// the generator's own increment), so consecutive histories would be near-copies: hash the seed first
	r := NewRng(NewRng(s).U64())
	fail := func(key, what string) {
		*mon = append(*mon, MonitorFailure{What: what, Key: key, Replay: where})
	}
	// ---- genesis -------------------------------------------------------------------------
	// pool: r0 BIP, r1 USDT; BIP price between 10^-5 and 10 USDT (mostly around 0.001-0.01)
	var r0, r1 *big.Int
	switch r.Intn(6) {
	case 0:
		r0 = new(big.Int).Add(r.Big(30), pip(1000))
		r1 = new(big.Int).Add(r.Big(30), pip(1))
	default:
		r0 = new(big.Int).Mul(pip(int64(100000+r.Intn(50000000))), Z(int64(1+r.Intn(20))))
		r1 = new(big.Int).Div(new(big.Int).Mul(r0, Z(int64(1+r.Intn(2000)))), Z(100000))
	}
	pc0 := c28Root(r0, r1)
	usdtBal := new(big.Int).Mul(r1, Z(1000))
	bipBal := new(big.Int).Add(new(big.Int).Mul(r0, Z(1000)), pip(1000000))
	spec := &GenesisSpec{NAccounts: 4, Balance: bipBal, NVals: 1 + r.Intn(3)}
	// stored price record
	pr := types.RewardPrice{}
	start := time.Date(2030, 1, 1, 9, 0, 0, 0, time.UTC) // Node.initChain
	gapEdge := false
	switch r.Intn(7) {
	case 6:
		// shortly after the chain start (09:00): the first block can be placed exactly 3 h (or 3 h + 1 ns)
		// later, inside the window — the only way to meet the 3 h boundary, since two updates of the
		// same day are always less than 3 h apart
		pr.Time = uint64(start.Add(time.Duration(r.Intn(10000)) * time.Second).UnixNano())
		gapEdge = true
	case 0:
		pr.Time = 0
	case 1:
		pr.Time = uint64(start.Add(-time.Duration(r.Intn(30)) * time.Hour).UnixNano())
	case 2:
		pr.Time = uint64(time.Date(2029, 12, 31, 12+r.Intn(3), r.Intn(60), 0, 0, time.UTC).UnixNano())
	case 3:
		pr.Time = uint64(1)<<63 + r.U64()%1000000 // read back as a negative int64 (year 1677)
	case 4:
		pr.Time = uint64(start.Add(time.Duration(1+r.Intn(48)) * time.Hour).UnixNano()) // in the future
	default:
		pr.Time = uint64(start.Add(-time.Duration(3*3600e9 + int64(r.Intn(7200))*1e9)).UnixNano())
	}
	// stored reserves: the pool's, shifted by -15..+15 % on the USDT side
	R0 := new(big.Int).Set(r0)
	R1 := new(big.Int).Div(new(big.Int).Mul(r1, Z(int64(850+r.Intn(300)))), Z(1000))
	if R1.Sign() == 0 {
		R1 = Z(1)
	}
	if c28ZeroBIP {
		R0 = Z(0)
	}
	pr.AmountBIP, pr.AmountUSDT = R0.String(), R1.String()
	switch r.Intn(5) {
	case 0:
		pr.Reward = "0"
	case 1:
		pr.Reward = new(big.Int).Add(pc0, pip(int64(r.Intn(30)))).String()
	case 2:
		pr.Reward = pc0.String()
	default:
		pr.Reward = new(big.Int).Div(new(big.Int).Mul(pc0, Z(int64(r.Intn(100)))), Z(100)).String()
	}
	pr.Off = r.Intn(2) == 0
	spec.PrevReward = pr
	nearCap := r.Intn(3) == 0
	if nearCap {
		k := int64(1 + r.Intn(40))
		e := new(big.Int).Sub(c28Cap, new(big.Int).Mul(bi(pr.Reward), Z(k)))
		if r.Intn(3) == 0 {
			// exactly k rewards below the cap: the emission meets the cap exactly unless an update intervenes
			e = new(big.Int).Sub(c28Cap, new(big.Int).Mul(bi(pr.Reward), Z(1+k%8)))
		} else {
			e.Sub(e, r.Big(20))
		}
		if r.Intn(6) == 0 {
			e = new(big.Int).Add(c28Cap, r.Big(3)) // already at / above the cap
		}
		spec.Emission = e.String()
	}
	noPool := r.Intn(12) == 0
	spec.Mutate = func(st *types.AppState) {
		if noPool {
			return
		}
		owner := st.Accounts[0].Address
		vol := new(big.Int).Add(usdtBal, r1)
		st.Coins = append(st.Coins, types.Coin{ID: uint64(types.USDTID), Name: "Tether", Symbol: types.StrToCoinSymbol("USDTE"),
			Volume: vol.String(), MaxSupply: "1000000000000000000000000000000000", OwnerAddress: &owner, Mintable: true, Burnable: true})
		st.Pools = append(st.Pools, types.Pool{Coin0: 0, Coin1: uint64(types.USDTID), Reserve0: r0.String(), Reserve1: r1.String(), ID: 1})
		st.Accounts[0].Balance = append(st.Accounts[0].Balance, types.Balance{Coin: uint64(types.USDTID), Value: usdtBal.String()})
	}
	nd := newNode(spec)
	defer nd.Cleanup()
	trader := nd.Accts[0]

	c.Begin(c28Model)
	kind := "plain"
	if nearCap {
		kind = "nearcap"
	}
	if noPool {
		kind = "nopool"
	}
	c.Op(L(Z(0), new(big.Int).SetUint64(pr.Time), R0, R1, bi(pr.Reward), b2z(pr.Off), bi(pr.Reward), bi(pr.Reward), bi(nd.Genesis.Emission), Z(stakePeriod)), L(Z(0)))
	updates, crossed := 0, false
	single := r.Intn(2) == 0 // at most one price-moving swap between two reward updates
	swapped := false
	nb := 60 + r.Intn(141)
	// typical block spacing of this history
	spacings := []time.Duration{7 * time.Second, 3 * time.Minute, 11 * time.Minute, 25 * time.Minute, time.Hour, 2 * time.Hour}
	base := spacings[r.Intn(len(spacings))]
	prev := c28Observe(nd, true)
	for b := 0; b < nb; b++ {
		h := nd.Height + 1
		first := h%stakePeriod == 1
		// ---- block time --------------------------------------------------------------------
		dt := time.Duration(1+r.Intn(2000)) * base / 1000
		switch r.Intn(12) {
		case 0:
			dt = time.Duration(1+r.Intn(20)) * time.Hour
		case 1:
			dt = time.Duration(1 + r.Intn(1000)) // nanoseconds
		}
		if first && (r.Intn(3) != 0 || (gapEdge && b == 0)) {
			var target time.Time
			sel := r.Intn(12)
			if gapEdge && b == 0 {
				sel = 4 + r.Intn(2)
			}
			switch sel {
			case 0:
				target = nextAt(nd.Time, 11, 59, 59, 999999999)
			case 1:
				target = nextAt(nd.Time, 12, 0, 0, 0)
			case 2:
				target = nextAt(nd.Time, 14, 59, 59, 999999999)
			case 3:
				target = nextAt(nd.Time, 15, 0, 0, 0)
			case 4:
				target = time.Unix(0, prev.t).UTC().Add(3 * time.Hour)
			case 5:
				target = time.Unix(0, prev.t).UTC().Add(3*time.Hour + 1)
			default:
				target = nextAt(nd.Time, 12+r.Intn(3), r.Intn(60), r.Intn(60), 0)
			}
			if target.After(nd.Time) {
				dt = target.Sub(nd.Time)
			}
		}
		// ---- transactions: move the pool price ------------------------------------------------
		var txs [][]byte
		pool := nd.App.CurrentState().Swap().GetSwapper(0, types.USDTID)
		poolExists := pool.Exists()
		var cr0, cr1 *big.Int = Z(0), Z(0)
		if poolExists {
			cr0, cr1 = pool.Reserves()
		}
		if poolExists && !first && r.Intn(5) == 0 && !(single && swapped) {
			swapped = true
			// target price ratio rho (new/old) in 1/10000
			var rho int64
			switch r.Intn(8) {
			case 0:
				rho = 9090 + int64(r.Intn(21)) // around -9 %
			case 1:
				rho = 8990 + int64(r.Intn(21)) // around -10 %
			case 2:
				rho = 8900
			case 3:
				rho = 5000 + int64(r.Intn(3000))
			case 4:
				rho = 10100 + int64(r.Intn(3000))
			case 5:
				rho = 11000 + int64(r.Intn(200))
			default:
				rho = 9900 + int64(r.Intn(200))
			}
			// selling a of coin X into reserves (x, y): price of X changes by about (x/(x+a))^2
			// -> a = x * (sqrt(1/rho') - 1) with rho' = rho for X = BIP, 1/rho for X = USDT
			var route []types.CoinID
			var x *big.Int
			num, den := int64(10000), rho
			if rho < 10000 {
				route, x = []types.CoinID{0, types.USDTID}, cr0
			} else {
				route, x = []types.CoinID{types.USDTID, 0}, cr1
				num, den = rho, 10000
			}
			// a = x * (sqrt(num/den) - 1), computed with integers at 10^-9 resolution
			sq := new(big.Int).Sqrt(new(big.Int).Div(new(big.Int).Mul(Z(num), ZS("1000000000000000000")), Z(den)))
			a := new(big.Int).Mul(x, new(big.Int).Sub(sq, Z(1000000000)))
			a.Div(a, Z(1000000000))
			if a.Sign() > 0 {
				txs = append(txs, nd.MkTx(trader, transaction.TypeSellSwapPool, transaction.SellSwapPoolDataV260{Coins: route, ValueToSell: a, MinimumValueToBuy: Z(0)}, 0, 0, 1, nil))
			}
		}
		// ---- execute ---------------------------------------------------------------------------
		br := nd.Block(txs, &BlockOpts{Dt: dt})
		if br.Panic != "" {
			// BeginBlock panics are compared with the model's explicit panic outcome
			c.Op(L(Z(1), Z(h), Z(nd.Time.UnixNano()), Z(int64(nd.Time.Hour())), b2z(poolExists), cr0, cr1, Z(0)), L(Z(2), Z(-999)))
			stack := ""
			if len(nd.Stacks) > 0 {
				stack = " [" + nd.Stacks[len(nd.Stacks)-1] + "]"
			}
			fail("c07-panic", "panic: "+br.Panic+stack)
			ex["panics"]++
			break
		}
		for _, tr := range br.Txs {
			if tr.Code == 0 {
				ex["swaps"]++
			} else {
				ex["failed_txs"]++
			}
		}
		cur := c28Observe(nd, true)
		hour := nd.Time.Hour()
		tn := nd.Time.UnixNano()
		var ev *eventsdb.UpdatedBlockRewardEvent
		for _, e := range nd.App.VerifEventsDB().LoadEvents(uint32(h)) {
			if u, ok := e.(*eventsdb.UpdatedBlockRewardEvent); ok {
				ev = u
			}
		}
		pc := Z(0)
		if ev != nil {
			pc = new(big.Int).Div(bi(ev.ValueLockedStakeRewards), Z(3))
			updates++
			swapped = false
			ex["updates"]++
		}
		c.Op(L(Z(1), Z(h), Z(tn), Z(int64(hour)), b2z(poolExists), cr0, cr1, pc),
			L(Z(0), cur.reward, cur.safe, Z(cur.t), cur.r0, cur.r1, cur.last, b2z(cur.off)))
		dE := new(big.Int).Sub(cur.emission, prev.emission)
		dZ := new(big.Int).Sub(cur.zero, prev.zero)
		dT := new(big.Int).Sub(cur.total, prev.total)
		c.Op(L(Z(2)), L(cur.emission, dZ, dT))
		if ev != nil {
			c.Op(L(Z(3), cr0, cr1, pc), L(Z(1)))
		}

		// ---- monitors: the property text on the node's observables -------------------------------
		below := prev.emission.Cmp(c28Cap) < 0
		window := first && hour >= 12 && hour <= 14 && new(big.Int).Sub(Z(tn), Z(prev.t)).Cmp(Z(int64(3*time.Hour))) > 0
		recChanged := cur.t != prev.t || cur.last.Cmp(prev.last) != 0 || cur.off != prev.off || cur.r0.Cmp(prev.r0) != 0 || cur.r1.Cmp(prev.r1) != 0
		rewChanged := cur.reward.Cmp(prev.reward) != 0 || cur.safe.Cmp(prev.safe) != 0
		if below {
			if (ev != nil || recChanged || rewChanged) && !window {
				fail("c28-update-outside-window", fmt.Sprintf("C28: block %d at %s (first of period: %v, previous update %s): reward (%s,%s)->(%s,%s), event %v, stored record changed %v outside the 12:00-14:59 / 3 h window",
					h, nd.Time.Format(time.RFC3339Nano), first, time.Unix(0, prev.t).UTC().Format(time.RFC3339Nano), prev.reward, prev.safe, cur.reward, cur.safe, ev != nil, recChanged))
			}
			if first && hour >= 12 && hour <= 14 {
				switch new(big.Int).Sub(Z(tn), Z(prev.t)).Cmp(Z(int64(3 * time.Hour))) {
				case 0:
					ex["gap_exactly_3h"]++
				case 1:
					if new(big.Int).Sub(Z(tn), Z(prev.t)).Cmp(Z(int64(3*time.Hour)+1)) == 0 {
						ex["gap_3h_plus_1ns"]++
					}
				}
			}
			if ev != nil && window {
				ex["window_updates"]++
				c28NoteErr(cr0, cr1, cur.safe)
				if !c28RootOK(cr0, cr1, cur.safe) {
					fail("c28-price-formula", fmt.Sprintf("C28: block %d: safe reward %s is not 350*(r1/r0)^(1/4) BIP for reserves %s / %s within 2^-40", h, cur.safe, cr0, cr1))
				}
				if prev.r0.Sign() > 0 && prev.r1.Sign() > 0 {
					pct := c28Pct(prev.r0, prev.r1, cr0, cr1)
					ex[fmt.Sprintf("pct_%s", c28Bucket(pct))]++
					if pct.Cmp(Z(-10)) <= 0 {
						ex["drops"]++
						if cur.reward.Sign() != 0 {
							fail("c28-drop-keeps-reward", fmt.Sprintf("C28: block %d: price changed by %s %% (floor) but validators' reward is %s, not 0", h, pct, cur.reward))
						}
					} else if prev.off && prev.last.Cmp(cur.safe) < 0 {
						want := new(big.Int).Add(prev.last, c28Step)
						if want.Cmp(cur.safe) > 0 {
							want = cur.safe
						}
						ex["recovery_steps"]++
						if cur.reward.Cmp(want) != 0 {
							fail("c28-recovery-step", fmt.Sprintf("C28: block %d: recovering from %s towards %s: reward %s, expected %s (10 BIP per update)", h, prev.last, cur.safe, cur.reward, want))
						}
					} else if cur.reward.Cmp(cur.safe) != 0 {
						fail("c28-reward-not-price", fmt.Sprintf("C28: block %d: no drop, not recovering: reward %s differs from the price-derived %s", h, cur.reward, cur.safe))
					}
				}
			}
			// every block mints the current price-derived reward (the one in force after this block's
			// BeginBlock) and counts it in the emission
			if dE.Cmp(cur.safe) != 0 {
				fail("c28-emission-step", fmt.Sprintf("C28: block %d below the cap: emission grew by %s, price-derived reward is %s", h, dE, cur.safe))
			}
			// the withheld part (safe - reward) is burned: credited to the zero address
			w := new(big.Int).Sub(cur.safe, cur.reward)
			if w.Sign() < 0 {
				w = Z(0)
			}
			if dZ.Cmp(w) != 0 {
				fail("c28-burn", fmt.Sprintf("C28: block %d: zero address credited %s, withheld part is %s", h, dZ, w))
			}
			if dZ.Sign() > 0 {
				ex["burn_blocks"]++
			}
			// what the block created in base coin is what it added to the emission counter
			if dT.Cmp(dE) != 0 {
				fail("c28-minted-differs", fmt.Sprintf("C28: block %d: base coin created %s, emission grew by %s", h, dT, dE))
			}
			if cur.emission.Cmp(c28Cap) >= 0 {
				crossed = true
				ex["cap_crossings"]++
				if cur.emission.Cmp(c28Cap) == 0 {
					ex["cap_met_exactly"]++
				}
				over := new(big.Int).Sub(cur.emission, c28Cap)
				if over.Cmp(maxOver) > 0 {
					maxOver.Set(over)
				}
			}
		} else {
			ex["blocks_at_cap"]++
			if dE.Sign() != 0 || dT.Sign() != 0 || dZ.Sign() != 0 {
				fail("c28-mint-after-cap", fmt.Sprintf("C28: block %d with emission %s >= cap: emission grew by %s, base coin created %s, zero address credited %s", h, prev.emission, dE, dT, dZ))
			}
			if cur.reward.Sign() != 0 || cur.safe.Sign() != 0 {
				fail("c28-reward-after-cap", fmt.Sprintf("C28: block %d with emission %s >= cap: reward (%s,%s) not zero", h, prev.emission, cur.reward, cur.safe))
			}
			if ev != nil || recChanged {
				fail("c28-update-after-cap", fmt.Sprintf("C28: block %d at the cap: reward update event %v, record changed %v", h, ev != nil, recChanged))
			}
		}
		prev = cur
	}
	if crossed {
		kind += "-crossed"
	}
	c.End(updates > 0, kind)
}

func c28Bucket(p *big.Int) string {
	switch {
	case p.Cmp(Z(-11)) < 0:
		return "lt-11"
	case p.Cmp(Z(-8)) <= 0:
		return "m" + new(big.Int).Neg(p).String()
	case p.Sign() < 0:
		return "m7..m1"
	case p.Sign() == 0:
		return "0"
	default:
		return "pos"
	}
}

// ---- package level: AppDB.UpdatePriceFix alone -----------------------------------------------
func c28Package(c *Cases, seed uint64, n int, where string, mon *[]MonitorFailure, ex map[string]int) {
	r := NewRng(NewRng(seed ^ 0xC28C28).U64())
	home, err := os.MkdirTemp(os.Getenv("VERIF_TMP"), "vc28")
	if err != nil {
		panic(err)
	}
	defer os.RemoveAll(home)
	newDB := func(k int) *appdb.AppDB {
		d := fmt.Sprintf("%s/n%d", home, k)
		os.MkdirAll(d+"/data", 0755)
		cfg := config.GetConfig(d)
		cfg.DBBackend = "goleveldb"
		return appdb.NewAppDB(d, cfg)
	}
	db := newDB(0)
	defer db.Close()
	fresh := 0
	for i := 0; i < n; i++ {
		// stored record
		var R0, R1 *big.Int
		switch r.Intn(10) {
		case 0:
			R0, R1 = r.Big(30), r.Big(30)
		case 1:
			R0, R1 = Z(int64(r.Intn(3))), Z(int64(r.Intn(3)))
		default:
			R0 = new(big.Int).Add(r.Big(28), Z(1))
			R1 = new(big.Int).Add(r.Big(26), Z(1))
		}
		// new reserves: a chosen percentage of the stored price, exactly or off by a little
		var r0, r1 *big.Int
		switch r.Intn(8) {
		case 0:
			r0, r1 = r.Big(30), r.Big(30)
		case 1:
			r0, r1 = Z(int64(r.Intn(3))), Z(int64(r.Intn(3)))
		default:
			// r1/r0 = (R1/R0) * q/1000 exactly: r0 = R0*1000*m, r1 = R1*q*m (+ a small perturbation)
			q := []int64{1000, 910, 909, 911, 900, 901, 899, 890, 500, 1100, 1300, 990}[r.Intn(12)]
			m := Z(int64(1 + r.Intn(5)))
			r0 = new(big.Int).Mul(new(big.Int).Mul(R0, Z(1000)), m)
			r1 = new(big.Int).Mul(new(big.Int).Mul(R1, Z(q)), m)
			switch r.Intn(4) {
			case 0:
				r1.Add(r1, Z(1))
			case 1:
				r1.Sub(r1, Z(1))
			}
			if r1.Sign() < 0 {
				r1 = Z(0)
			}
		}
		pcGuess := Z(0)
		if r0.Sign() > 0 {
			pcGuess = c28Root(r0, r1)
		}
		var last *big.Int
		switch r.Intn(5) {
		case 0:
			last = Z(0)
		case 1:
			last = new(big.Int).Sub(pcGuess, new(big.Int).Add(c28Step, Z(int64(r.Intn(3))-1)))
		case 2:
			last = new(big.Int).Add(pcGuess, Z(int64(r.Intn(3))-1))
		case 3:
			last = new(big.Int).Sub(pcGuess, pip(int64(r.Intn(40))))
		default:
			last = r.Big(21)
		}
		if last.Sign() < 0 {
			last = Z(0)
		}
		off := r.Intn(2) == 0
		T := r.U64() >> uint(r.Intn(64))
		tNew := time.Unix(0, int64(r.U64()>>1)).UTC()
		has := r.Intn(40) != 0 || fresh >= 6
		d := db
		if !has {
			fresh++
			d = newDB(fresh)
		} else {
			db.SetPrice(time.Unix(0, int64(T)).UTC(), R0, R1, last, off)
		}
		var rew, safe *big.Int
		panicked := ""
		func() {
			defer func() {
				if x := recover(); x != nil {
					panicked = fmt.Sprint(x)
				}
			}()
			rew, safe = d.UpdatePriceFix(tNew, cp(r0), cp(r1))
		}()
		in := L(Z(4), b2z(has), new(big.Int).SetUint64(T), R0, R1, last, b2z(off), Z(tNew.UnixNano()), r0, r1)
		c.Begin(c28Model)
		if panicked != "" {
			c.Op(append(in, Z(0)), L(Z(2), Z(-999)))
			ex["pkg_panics"]++
			c.End(true, "pkg-panic")
			if !has {
				d.Close()
			}
			continue
		}
		t2, s0, s1, l2, o2 := d.GetPrice()
		c.Op(append(in, cp(safe)), L(Z(0), cp(rew), cp(safe), Z(t2.UnixNano()), cp(s0), cp(s1), cp(l2), b2z(o2)))
		c.Op(L(Z(3), r0, r1, cp(safe)), L(Z(1)))
		ex["pkg_updates"]++
		c28NoteErr(r0, r1, safe)
		if !c28RootOK(r0, r1, safe) {
			*mon = append(*mon, MonitorFailure{What: fmt.Sprintf("C28: UpdatePriceFix safe reward %s is not 350*(r1/r0)^(1/4) BIP for reserves %s / %s within 2^-40", safe, r0, r1), Key: "c28-price-formula", Replay: where})
		}
		if has && R0.Sign() > 0 && R1.Sign() > 0 && r0.Sign() > 0 {
			pct := c28Pct(R0, R1, r0, r1)
			ex[fmt.Sprintf("pkg_pct_%s", c28Bucket(pct))]++
			if pct.Cmp(Z(-10)) <= 0 && (rew.Sign() != 0 || !o2) {
				*mon = append(*mon, MonitorFailure{What: fmt.Sprintf("C28: UpdatePriceFix: change %s %% but reward %s, off %v", pct, rew, o2), Key: "c28-drop-keeps-reward", Replay: where})
			}
		}
		kind := "pkg"
		if !has {
			kind = "pkg-norecord"
			d.Close()
		}
		c.End(true, kind)
	}
}
