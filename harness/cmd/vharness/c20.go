package main

import (
	"fmt"
	"math/big"

	"github.com/MinterTeam/minter-go-node/coreV2/types"
)

func init() { commands["c20"] = runC20 }

// runC20: the three governance decisions of the real Blockchain object on generated
// power vectors and vote sets (powers are injected through the verif accessor; votes go
// into the real Halts / Commission / Updates state modules).
// case model 4, op: [1; total; nprops; voted_1 .. voted_n]  ->  [halt(0/1 on proposal 1); winnerC; winnerU]
// where winner = 1-based index of the accepted proposal, 0 = none.
func runC20(seed uint64, n int, out, stats string, _ []string) {
	r := NewRng(seed)
	c := NewCases(out)
	var mon []MonitorFailure
	node := newNode(&GenesisSpec{NAccounts: 2, Balance: pip(1000000), NVals: 4})
	defer node.Cleanup()
	app := node.App
	st := app.VerifStateDeliver()
	height := uint64(1000)
	boundary := 0
	for i := 0; i < n; i++ {
		height++
		nv := 1 + r.Intn(9)
		keys := make([]types.Pubkey, nv)
		powers := map[types.Pubkey]*big.Int{}
		total := big.NewInt(0)
		var pw []*big.Int
		mode := r.Intn(6)
		for j := 0; j < nv; j++ {
			keys[j] = mkVal(100 + j).Pub
			var p *big.Int
			switch mode {
			case 0: // equal powers (exact thirds when nv divisible by 3)
				p = pip(1000)
			case 1:
				p = Z(int64(1 + r.Intn(5)))
			case 2:
				p = new(big.Int).Add(r.Big(30), Z(1))
			case 3: // huge powers where 64-bit float rounding matters
				p = new(big.Int).Add(r.Big(40), ZS("1000000000000000000000000000000"))
			default:
				p = new(big.Int).Add(r.Big(24), Z(1))
			}
			powers[keys[j]] = p
			pw = append(pw, p)
			total.Add(total, p)
		}
		// some validators are absent: they keep no power in the map (calculatePowers skips them)
		// proposals: each validator votes for at most one proposal per kind
		np := 1 + r.Intn(3)
		voted := make([]*big.Int, np)
		for k := range voted {
			voted[k] = big.NewInt(0)
		}
		assign := make([]int, nv)
		for j := 0; j < nv; j++ {
			assign[j] = r.Intn(np + 1) // np = abstain
		}
		if mode >= 4 && nv >= 2 {
			// steer towards the boundary: adjust the last validator's power so that 3*voted ~ 2*total
			// proposal 0 gets validators 0..nv-2, last validator abstains with power chosen so that voted = 2/3 total (+-1)
			v := big.NewInt(0)
			for j := 0; j < nv-1; j++ {
				assign[j] = 0
				v.Add(v, pw[j])
			}
			assign[nv-1] = np
			// total = 3v/2 + d  => last = v/2 + d
			last := new(big.Int).Div(v, Z(2))
			last.Add(last, Z(int64(r.Intn(5)-2)))
			if last.Sign() <= 0 {
				last = Z(1)
			}
			total.Sub(total, pw[nv-1])
			pw[nv-1] = last
			powers[keys[nv-1]] = last
			total.Add(total, last)
			boundary++
		}
		for j := 0; j < nv; j++ {
			if assign[j] < np {
				voted[assign[j]].Add(voted[assign[j]], pw[j])
			}
		}
		app.VerifSetPowers(powers, cp(total))
		for j := 0; j < nv; j++ {
			if assign[j] == 0 {
				st.Halts.AddHaltBlock(height, keys[j])
			}
			if assign[j] < np {
				st.Commission.AddVote(height, keys[j], []byte(fmt.Sprintf("price-%d", assign[j])))
				st.Updates.AddVote(height, keys[j], fmt.Sprintf("v%d", assign[j]))
			}
		}
		halt := int64(0)
		if app.VerifIsApplicationHalted(height) {
			halt = 1
		}
		wc := int64(0)
		if p := app.VerifUpdateCommissionsBlock(height); len(p) != 0 {
			fmt.Sscanf(string(p), "price-%d", &wc)
			wc++
		}
		wu := int64(0)
		if v, ok := app.VerifUpdateNetworkBlock(height); ok {
			fmt.Sscanf(v, "v%d", &wu)
			wu++
		}
		st.Halts.Delete(height)
		st.Commission.Delete(height)
		st.Updates.Delete(height)
		// proposals appear in GetVotes in order of first vote; recompute that order
		var order []int
		seen := map[int]bool{}
		for j := 0; j < nv; j++ {
			if assign[j] < np && !seen[assign[j]] {
				seen[assign[j]] = true
				order = append(order, assign[j])
			}
		}
		in := L(Z(1), cp(total), Z(int64(len(order))))
		for _, k := range order {
			in = append(in, cp(voted[k]))
		}
		// map winner (proposal number) to its position in `order`
		pos := func(w int64) int64 {
			if w == 0 {
				return 0
			}
			for i, k := range order {
				if int64(k) == w-1 {
					return int64(i + 1)
				}
			}
			return -5
		}
		in = append(in, cp(voted[0]))
		c.Begin(4)
		c.Op(in, L(Z(halt), Z(pos(wc)), Z(pos(wu))))
		// monitor: the property itself, in integers
		strict := func(v *big.Int) bool { return new(big.Int).Mul(v, Z(3)).Cmp(new(big.Int).Mul(total, Z(2))) > 0 }
		if (halt == 1) != strict(voted[0]) {
			mon = append(mon, MonitorFailure{What: fmt.Sprintf("C20: halt decision %d with voted=%s total=%s (3*voted > 2*total is %v)", halt, voted[0], total, strict(voted[0])), Key: "c20-threshold", Replay: "> " + ints(in)})
		}
		for _, w := range []int64{wc, wu} {
			any := false
			for k := range voted {
				if strict(voted[k]) {
					any = true
					if w != int64(k+1) {
						mon = append(mon, MonitorFailure{What: fmt.Sprintf("C20: proposal %d has more than 2/3 (voted=%s total=%s) but decision is %d", k+1, voted[k], total, w), Key: "c20-threshold", Replay: "> " + ints(in)})
					}
				}
			}
			if !any && w != 0 {
				mon = append(mon, MonitorFailure{What: fmt.Sprintf("C20: proposal %d accepted with voted=%s of total=%s: not strictly more than 2/3", w, voted[w-1], total), Key: "c20-threshold", Replay: "> " + ints(in)})
			}
		}
		c.End(halt == 1 || wc != 0 || mode >= 4, fmt.Sprintf("mode%d", mode))
	}
	// ---- node level: the power table of a block holds exactly the validators recorded as present in it --------
	// (the decision functions above are fed a table; this part ties the table to the block's commit info)
	powerBlocks := 0
	{
		nd := newNode(&GenesisSpec{NAccounts: 6, Balance: pip(1000000), NVals: 5, Stakes: []*big.Int{pip(10000), pip(12000), pip(15000), pip(20000), pip(9000)}})
		for b := 0; b < 10+n/200 && b < 60; b++ {
			opts := &BlockOpts{Absent: map[int]bool{}, Omit: map[int]bool{}}
			for i := 0; i < 5; i++ {
				switch r.Intn(6) {
				case 0:
					opts.Absent[i] = true
				case 1:
					opts.Omit[i] = true
				}
			}
			if len(opts.Omit)+len(opts.Absent) >= 4 { // keep absences rare enough not to drop validators all the time
				opts.Absent = map[int]bool{}
			}
			hh := nd.Height + 1
			opts.AfterBegin = func() {
				got, gotTotal := nd.App.VerifPowers()
				want := map[types.Pubkey]*big.Int{}
				wantTotal := big.NewInt(0)
				vals := nd.App.VerifStateDeliver().Validators.GetValidators()
				// model 23 (coq/Model/PowerTable.v): the validators of the state with their commit-info status -> table size, total
				in23 := L(Z(int64(len(vals))))
				for _, v := range vals {
					idx := -1
					for k, x := range nd.Vals {
						if x.Pub == v.PubKey {
							idx = k
						}
					}
					status := int64(1)
					if idx < 0 || opts.Omit[idx] {
						status = 0
					} else if opts.Absent[idx] {
						status = 2
					}
					in23 = append(in23, Z(int64(idx)), v.GetTotalBipStake(), Z(status), b2z(v.IsToDrop()))
				}
				c.Begin(23)
				c.Op(in23, L(Z(int64(len(got))), cp(gotTotal)))
				c.End(len(opts.Omit)+len(opts.Absent) > 0, "power-table")
				for _, v := range vals {
					idx := -1
					for k, x := range nd.Vals {
						if x.Pub == v.PubKey {
							idx = k
						}
					}
					if idx < 0 || opts.Omit[idx] || opts.Absent[idx] || v.IsToDrop() {
						continue
					}
					want[v.PubKey] = v.GetTotalBipStake()
					wantTotal.Add(wantTotal, v.GetTotalBipStake())
				}
				if wantTotal.Sign() == 0 {
					wantTotal = big.NewInt(1)
				}
				okp := gotTotal.Cmp(wantTotal) == 0 && len(got) == len(want)
				for k, v := range want {
					if got[k] == nil || got[k].Cmp(v) != 0 {
						okp = false
					}
				}
				powerBlocks++
				if !okp {
					mon = append(mon, MonitorFailure{What: fmt.Sprintf("C20: block %d: the voting-power table holds %d validators with total %s; the validators recorded as present in this block (signed, not dropped; absent %v, not in the commit info %v) are %d with total %s", hh, len(got), gotTotal, opts.Absent, opts.Omit, len(want), wantTotal),
						Key: "c20-powers-not-present", Replay: fmt.Sprintf("vharness c20 -seed %d -n %d (node-level block %d)", seed, n, b)})
				}
			}
			if br := nd.Block(nil, opts); br.Panic != "" {
				mon = append(mon, MonitorFailure{What: "panic: " + br.Panic, Key: "c07-panic"})
				break
			}
		}
		nd.Cleanup()
	}
	c.Close()
	writeStats(stats, &Stats{Property: "C20", Seed: seed, Cases: c.NCases, Ops: c.NOps, NonTrivial: c.NonTriv,
		Rule: "validator power vector (1-9 validators; equal / tiny / 10^30 / 10^40 / steered to 3*voted = 2*total +-2) with 1-3 competing proposals per kind, decided by the real Blockchain.isApplicationHalted / isUpdateCommissionsBlockV2 / isUpdateNetworkBlockV2; node level: on a real chain with signed / absent / missing commit-info entries the power table built by BeginBlock must hold exactly the validators recorded as present; non-trivial = something was accepted or the case is a boundary case; distinct = distinct case text",
		Dist: c.Dist, Samples: c.Samples, Monitor: mon, Extra: map[string]interface{}{"boundary_cases": boundary, "blocks_with_power_table_checked": powerBlocks}})
}
