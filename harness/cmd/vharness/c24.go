package main

import (
	"encoding/binary"
	"fmt"
	"math/big"
	"reflect"
	"strconv"
	"strings"

	"github.com/MinterTeam/minter-go-node/coreV2/events"
	"github.com/MinterTeam/minter-go-node/coreV2/types"
	db "github.com/tendermint/tm-db"
)

func init() { commands["c24"] = runC24 }

// c24 — the real events store (events.NewEventsStore over a tm-db MemDB) against
// Model/EventStore.v (dispatch model 11) and against monitors that are independent of it.
//
// ops (model 11):  [1; kind; fields..] AddEvent -> [0]
//                  [2; h] CommitEvents(h) -> [0] | [2; line]      (panic: line of the first /repo frame)
//                  [3] restart = a fresh NewEventsStore on the same MemDB -> [0]
//                  [4; h] LoadEvents(h) -> [0; n; kind; fields..; ...] | [1] (nil) | [2; line]
// event coding: 1 reward [role addr amount pk forcoin], 2 slash [addr amount coin pk],
//   3 unbond [addr amount coin pk|-1], 4 kick [addr amount coin pk], 5 jail [pk until],
//   6 orderExpired [id addr coin amount], 7 unlock [addr amount coin], 8 move [addr amount coin pk topk],
//   9 removeCandidate [pk], 10 updateNetwork / 11 updateCommissions / 12 updatedBlockReward [n; payload..];
//   addresses and public keys are the big-endian integers of their bytes, a nil *Pubkey is -1,
//   decimal strings are their value, the empty string is -1.

var c24Roles = []string{"Validator", "Delegator", "DAO", "Developers"}

func c24Str(s string) *big.Int {
	if s == "" {
		return Z(-1)
	}
	b, ok := new(big.Int).SetString(s, 10)
	if !ok {
		return Z(-2)
	}
	return b
}
func c24Addr(a types.Address) *big.Int { return new(big.Int).SetBytes(a[:]) }
func c24Pk(p types.Pubkey) *big.Int    { return new(big.Int).SetBytes(p[:]) }
func c24U(u uint64) *big.Int           { return new(big.Int).SetUint64(u) }

// c24Enc renders an event (submitted or loaded) as kind :: fields.
func c24Enc(e events.Event) []*big.Int {
	switch v := e.(type) {
	case *events.RewardEvent:
		role := int64(-2)
		for i, s := range c24Roles {
			if s == v.Role {
				role = int64(i)
			}
		}
		return L(Z(1), Z(role), c24Addr(v.Address), c24Str(v.Amount), c24Pk(v.ValidatorPubKey), c24U(v.ForCoin))
	case *events.SlashEvent:
		return L(Z(2), c24Addr(v.Address), c24Str(v.Amount), c24U(v.Coin), c24Pk(v.ValidatorPubKey))
	case *events.UnbondEvent:
		pk := Z(-1)
		if v.ValidatorPubKey != nil {
			pk = c24Pk(*v.ValidatorPubKey)
		}
		return L(Z(3), c24Addr(v.Address), c24Str(v.Amount), c24U(v.Coin), pk)
	case *events.StakeKickEvent:
		return L(Z(4), c24Addr(v.Address), c24Str(v.Amount), c24U(v.Coin), c24Pk(v.ValidatorPubKey))
	case *events.JailEvent:
		return L(Z(5), c24Pk(v.ValidatorPubKey), c24U(v.JailedUntil))
	case *events.OrderExpiredEvent:
		return L(Z(6), c24U(v.ID), c24Addr(v.Address), c24U(v.Coin), c24Str(v.Amount))
	case *events.UnlockEvent:
		return L(Z(7), c24Addr(v.Address), c24Str(v.Amount), c24U(v.Coin))
	case *events.StakeMoveEvent:
		return L(Z(8), c24Addr(v.Address), c24Str(v.Amount), c24U(v.Coin), c24Pk(v.CandidatePubKey), c24Pk(v.ToCandidatePubKey))
	case *events.RemoveCandidateEvent:
		return L(Z(9), c24Pk(v.CandidatePubKey))
	case *events.UpdateNetworkEvent:
		return L(Z(10), Z(1), c24Str(v.Version))
	case *events.UpdateCommissionsEvent:
		rv := reflect.ValueOf(v).Elem()
		out := L(Z(11), Z(int64(rv.NumField())))
		for i := 0; i < rv.NumField(); i++ {
			f := rv.Field(i)
			if f.Kind() == reflect.Uint64 {
				out = append(out, c24U(f.Uint()))
			} else {
				out = append(out, c24Str(f.String()))
			}
		}
		return out
	case *events.UpdatedBlockRewardEvent:
		return L(Z(12), Z(2), c24Str(v.Value), c24Str(v.ValueLockedStakeRewards))
	}
	return L(Z(99), Z(0))
}

// c24Copy returns an independent deep copy of an event (the monitor's own record).
func c24Copy(e events.Event) events.Event {
	rv := reflect.ValueOf(e).Elem()
	n := reflect.New(rv.Type())
	n.Elem().Set(rv)
	if u, ok := n.Interface().(*events.UnbondEvent); ok && u.ValidatorPubKey != nil {
		k := *u.ValidatorPubKey
		u.ValidatorPubKey = &k
	}
	return n.Interface().(events.Event)
}

// c24Diff compares a loaded event with the committed one field by field; "" = equal.
func c24Diff(want, got events.Event) string {
	if got == nil {
		return "nil-event"
	}
	if reflect.TypeOf(want) != reflect.TypeOf(got) {
		return fmt.Sprintf("type:%T->%T", want, got)
	}
	if want.Type() != got.Type() {
		return "Type()"
	}
	w, g := reflect.ValueOf(want).Elem(), reflect.ValueOf(got).Elem()
	for i := 0; i < w.NumField(); i++ {
		name := w.Type().Field(i).Name
		wf, gf := w.Field(i), g.Field(i)
		if wf.Kind() == reflect.Ptr {
			if wf.IsNil() != gf.IsNil() {
				return name + ":nil-ness"
			}
			if wf.IsNil() {
				continue
			}
			wf, gf = wf.Elem(), gf.Elem()
		}
		if !reflect.DeepEqual(wf.Interface(), gf.Interface()) {
			return name
		}
	}
	return ""
}

func c24TypeName(e events.Event) string {
	return strings.TrimPrefix(fmt.Sprintf("%T", e), "*events.")
}

// ---- generators ---------------------------------------------------------------------------------
func c24AddrIdx(i uint64) types.Address {
	var a types.Address
	binary.BigEndian.PutUint64(a[12:], i)
	return a
}
func c24PkIdx(i uint64) types.Pubkey {
	var p types.Pubkey
	binary.BigEndian.PutUint64(p[24:], i)
	return p
}

type c24Gen struct {
	r     *Rng
	addrs []types.Address
	pks   []types.Pubkey
}

func newC24Gen(r *Rng) *c24Gen {
	g := &c24Gen{r: r}
	na, np := 1+r.Intn(30), 1+r.Intn(30)
	for i := 0; i < na; i++ {
		var a types.Address
		switch r.Intn(4) {
		case 0: // full-width
			for j := range a {
				a[j] = byte(r.U64())
			}
		case 1: // the zero address is an address like any other
			a = c24AddrIdx(uint64(r.Intn(3)))
		default:
			a = c24AddrIdx(uint64(r.Intn(1000000)))
		}
		g.addrs = append(g.addrs, a)
	}
	for i := 0; i < np; i++ {
		var p types.Pubkey
		switch r.Intn(4) {
		case 0:
			for j := range p {
				p[j] = byte(r.U64())
			}
		case 1:
			p = c24PkIdx(uint64(r.Intn(3)))
		default:
			p = c24PkIdx(uint64(r.Intn(1000000)))
		}
		g.pks = append(g.pks, p)
	}
	return g
}
func (g *c24Gen) addr() types.Address { return g.addrs[g.r.Intn(len(g.addrs))] }
func (g *c24Gen) pk() types.Pubkey    { return g.pks[g.r.Intn(len(g.pks))] }
func (g *c24Gen) amount() string {
	if g.r.Intn(8) == 0 {
		return "0"
	}
	return g.r.Big(32).String()
}
func (g *c24Gen) coin() uint64 { // coin, order ids are uint32 in the node
	switch g.r.Intn(4) {
	case 0:
		return uint64(g.r.Intn(3))
	case 1:
		return 0xFFFFFFFF - uint64(g.r.Intn(3))
	}
	return g.r.U64() & 0xFFFFFFFF
}
func (g *c24Gen) u64() uint64 {
	if g.r.Bool() {
		return g.r.U64()
	}
	return uint64(g.r.Intn(100000))
}
func (g *c24Gen) dec() string {
	if g.r.Intn(6) == 0 {
		return ""
	}
	return g.r.Big(20).String()
}

func (g *c24Gen) event(kind int) events.Event {
	switch kind {
	case 1:
		return &events.RewardEvent{Role: c24Roles[g.r.Intn(4)], Address: g.addr(), Amount: g.amount(), ValidatorPubKey: g.pk(), ForCoin: g.coin()}
	case 2:
		return &events.SlashEvent{Address: g.addr(), Amount: g.amount(), Coin: g.coin(), ValidatorPubKey: g.pk()}
	case 3:
		e := &events.UnbondEvent{Address: g.addr(), Amount: g.amount(), Coin: g.coin()}
		if g.r.Intn(3) != 0 {
			k := g.pk()
			e.ValidatorPubKey = &k
		}
		return e
	case 4:
		return &events.StakeKickEvent{Address: g.addr(), Amount: g.amount(), Coin: g.coin(), ValidatorPubKey: g.pk()}
	case 5:
		return &events.JailEvent{ValidatorPubKey: g.pk(), JailedUntil: g.u64()}
	case 6:
		return &events.OrderExpiredEvent{ID: g.coin(), Address: g.addr(), Coin: g.coin(), Amount: g.amount()}
	case 7:
		return &events.UnlockEvent{Address: g.addr(), Amount: g.amount(), Coin: g.coin()}
	case 8:
		return &events.StakeMoveEvent{Address: g.addr(), Amount: g.amount(), Coin: g.coin(), CandidatePubKey: g.pk(), ToCandidatePubKey: g.pk()}
	case 9:
		return &events.RemoveCandidateEvent{CandidatePubKey: g.pk()}
	case 10:
		return &events.UpdateNetworkEvent{Version: g.dec()}
	case 11:
		e := &events.UpdateCommissionsEvent{}
		rv := reflect.ValueOf(e).Elem()
		for i := 0; i < rv.NumField(); i++ {
			if rv.Field(i).Kind() == reflect.Uint64 {
				rv.Field(i).SetUint(g.u64())
			} else {
				rv.Field(i).SetString(g.dec())
			}
		}
		return e
	default:
		return &events.UpdatedBlockRewardEvent{Value: g.dec(), ValueLockedStakeRewards: g.dec()}
	}
}

// ---- one store under test with the monitor's reference -------------------------------------------
type c24Run struct {
	c         *Cases
	mem       db.DB
	st        events.IEventsDB
	pending   events.Events            // monitor copy of what was added since the last commit/restart
	committed map[uint32]events.Events // monitor copy of every committed batch
	mon       *[]MonitorFailure
	monSeen   map[string]bool
	trace     []string // compact replay of the case
	wrapKey   string   // when set, every deviation is attributed to this key (dedicated sub-case, past the id limit)
	loadsOK   int
	compacted bool
	restarts  int
	panics    int
}

func newC24Run(c *Cases, mon *[]MonitorFailure, seen map[string]bool) *c24Run {
	m := db.NewMemDB()
	return &c24Run{c: c, mem: m, st: events.NewEventsStore(m), committed: map[uint32]events.Events{}, mon: mon, monSeen: seen}
}

func (x *c24Run) fail(key, what string) {
	if x.monSeen[key] {
		return
	}
	x.monSeen[key] = true
	if x.wrapKey != "" { // one report per distinct symptom, all under the key of the defect
		what = what + " [symptom " + key + "]"
		key = x.wrapKey
	}
	tr := x.trace
	if len(tr) > 60 {
		tr = append([]string{"..."}, tr[len(tr)-60:]...)
	}
	*x.mon = append(*x.mon, MonitorFailure{What: what, Key: key, Replay: strings.Join(tr, " ; ")})
}

// guarded call into the store: returns the first /repo frame ("" = no panic)
func c24Guard(f func()) (frame string, msg string) {
	defer func() {
		if r := recover(); r != nil {
			msg = fmt.Sprint(r)
			frame = strings.Split(stackSummary(), " <- ")[0]
			if frame == "" {
				frame = "unknown:0"
			}
		}
	}()
	f()
	return
}

func c24Line(frame string) *big.Int {
	i := strings.LastIndex(frame, ":")
	n, _ := strconv.Atoi(frame[i+1:])
	return Z(int64(n))
}

func (x *c24Run) add(e events.Event, quiet bool) {
	x.pending = append(x.pending, c24Copy(e))
	frame, msg := c24Guard(func() { x.st.AddEvent(e) })
	if !quiet {
		x.trace = append(x.trace, fmt.Sprintf("add %s %v", c24TypeName(e), ints(c24Enc(e)[1:])))
	}
	if frame != "" {
		x.panics++
		x.fail("c24-panic:"+frame, "AddEvent panicked: "+msg)
		x.c.Op(append(L(Z(1)), c24Enc(e)...), L(Z(2), c24Line(frame)))
		return
	}
	x.c.Op(append(L(Z(1)), c24Enc(e)...), L(Z(0)))
}

func (x *c24Run) commit(h uint32) {
	x.trace = append(x.trace, fmt.Sprintf("commit %d", h))
	var err error
	frame, msg := c24Guard(func() { err = x.st.CommitEvents(h) })
	if frame != "" {
		x.panics++
		x.fail("c24-panic:"+frame, fmt.Sprintf("CommitEvents(%d) panicked: %s", h, msg))
		x.c.Op(L(Z(2), Z(int64(h))), L(Z(2), c24Line(frame)))
		return
	}
	if err != nil {
		x.fail("c24-commit-error", fmt.Sprintf("CommitEvents(%d) returned %v", h, err))
		x.c.Op(L(Z(2), Z(int64(h))), L(Z(1)))
		return
	}
	b := x.pending
	if b == nil {
		b = events.Events{}
	}
	x.committed[h] = b
	x.pending = nil
	x.c.Op(L(Z(2), Z(int64(h))), L(Z(0)))
}

func (x *c24Run) restart() {
	x.trace = append(x.trace, "restart")
	x.st = events.NewEventsStore(x.mem)
	x.pending = nil
	x.restarts++
	x.c.Op(L(Z(3)), L(Z(0)))
}

// load: LoadEvents(h) compared with the committed batch, field by field.
func (x *c24Run) load(h uint32) {
	x.trace = append(x.trace, fmt.Sprintf("load %d", h))
	var got events.Events
	frame, msg := c24Guard(func() { got = x.st.LoadEvents(h) })
	want, was := x.committed[h]
	if frame != "" {
		x.panics++
		x.fail("c24-panic:"+frame, fmt.Sprintf("LoadEvents(%d) panicked at %s (%s); %d events were committed at that height", h, frame, msg, len(want)))
		x.c.Op(L(Z(4), Z(int64(h))), L(Z(2), c24Line(frame)))
		return
	}
	if got == nil {
		if was {
			x.fail("c24-lost-batch", fmt.Sprintf("LoadEvents(%d) returned nil but %d events were committed", h, len(want)))
		}
		x.c.Op(L(Z(4), Z(int64(h))), L(Z(1)))
		return
	}
	out := L(Z(0), Z(int64(len(got))))
	for _, e := range got {
		out = append(out, c24Enc(e)...)
	}
	x.c.Op(L(Z(4), Z(int64(h))), out)
	if !was {
		x.fail("c24-phantom-batch", fmt.Sprintf("LoadEvents(%d) returned %d events for a height that was never committed", h, len(got)))
		return
	}
	if len(got) != len(want) {
		x.fail("c24-count", fmt.Sprintf("LoadEvents(%d) returned %d events, %d were committed", h, len(got), len(want)))
		return
	}
	ok := true
	for i := range want {
		if d := c24Diff(want[i], got[i]); d != "" {
			ok = false
			x.fail("c24-field:"+c24TypeName(want[i])+"."+d,
				fmt.Sprintf("LoadEvents(%d) event %d (%s): field %s differs: committed %v, loaded %v", h, i, c24TypeName(want[i]), d, ints(c24Enc(want[i])), ints(c24Enc(got[i]))))
			break
		}
		if c24Enc(want[i])[0].Int64() <= 8 {
			x.compacted = true
		}
	}
	if ok {
		x.loadsOK++
	}
}

// ---- the command -----------------------------------------------------------------------------------
func runC24(seed uint64, n int, out, stats string, args []string) {
	r := NewRng(seed)
	c := NewCases(out)
	var mon []MonitorFailure
	seen := map[string]bool{}
	kinds := map[string]int{}
	totalRestarts, totalLoads, maxPk, maxAd := 0, 0, 0, 0
	for i := 0; i < n; i++ {
		x := newC24Run(c, &mon, seen)
		g := newC24Gen(r)
		c.Begin(11)
		h := uint32(r.Intn(1000))
		if r.Intn(10) == 0 {
			h = 0xFFFFFFF0 - uint32(r.Intn(1000))
		}
		var hs []uint32
		pickH := func() uint32 {
			if len(hs) == 0 || r.Intn(6) == 0 {
				return h + uint32(r.Intn(3)) // possibly never committed
			}
			return hs[r.Intn(len(hs))]
		}
		blocks := 2 + r.Intn(9)
		addrOnly := r.Intn(5) == 0 // only address-keyed events: the pubkey cache stays empty (loadCache reloads every time)
		for b := 0; b < blocks; b++ {
			if r.Intn(8) != 0 || len(hs) == 0 {
				h += 1 + uint32(r.Intn(3))
			} // else: commit the same height again (overwrites)
			ne := r.Intn(9)
			if r.Intn(6) == 0 {
				ne = 0
			}
			for k := 0; k < ne; k++ {
				kind := 1 + r.Intn(12)
				if addrOnly {
					kind = []int{6, 7, 10, 12}[r.Intn(4)]
					if r.Intn(4) == 0 {
						kind = 33 // unbond with a nil key
					}
				}
				var e events.Event
				if kind == 33 {
					e = &events.UnbondEvent{Address: g.addr(), Amount: g.amount(), Coin: g.coin()}
				} else {
					e = g.event(kind)
				}
				kinds[c24TypeName(e)]++
				x.add(e, false)
				if r.Intn(25) == 0 { // restart with pending events: they are gone
					x.restart()
				}
				if r.Intn(25) == 0 {
					x.load(pickH())
				}
			}
			if r.Intn(5) == 0 {
				x.restart()
				if r.Intn(2) == 0 { // events added before a restart are lost; add fresh ones
					e := g.event(1 + r.Intn(12))
					if addrOnly {
						e = g.event(7)
					}
					kinds[c24TypeName(e)]++
					x.add(e, false)
				}
			}
			x.commit(h)
			hs = append(hs, h)
			for r.Intn(3) == 0 {
				x.restart()
			}
			for k := r.Intn(3); k > 0; k-- {
				x.load(pickH())
			}
		}
		// final sweep: every committed height, after a restart in half of the cases
		if r.Bool() {
			x.restart()
		}
		for _, hh := range hs {
			x.load(hh)
		}
		totalRestarts += x.restarts
		totalLoads += x.loadsOK
		kind := "mixed"
		if addrOnly {
			kind = "address-only"
		}
		c.End(x.restarts > 0 && x.loadsOK > 0 && x.compacted, kind)
	}
	extra := map[string]interface{}{"restarts": totalRestarts, "loads_equal": totalLoads, "event_kinds": kinds}
	if n >= 200 || (len(args) > 0 && args[0] == "wrap") {
		heavy := n >= 1000 || (len(args) > 1 && args[1] == "heavy")
		w := c24Wrap(c, &mon, seen, r, true, heavy)
		extra["wrap_case_restart_at_limit"] = w
		if heavy {
			extra["wrap_case_no_restart"] = c24Wrap(c, &mon, seen, r, false, false)
		}
		maxPk, maxAd = 65537, w["addresses"].(int)
	}
	extra["max_distinct_pubkeys"] = maxPk
	extra["max_distinct_addresses"] = maxAd
	c.Close()
	writeStats(stats, &Stats{Property: "C24", Seed: seed, Cases: c.NCases, Ops: c.NOps, NonTrivial: c.NonTriv,
		Rule: "case = a fresh real events store over a MemDB: 2-10 commits at increasing (rarely repeated) heights of batches of 0-8 events of all 12 kinds (nil and non-nil unbond keys, zero/small/full-width addresses and keys, 32-bit boundary coins, 64-bit jail heights, one case in five with address-keyed events only), restarts (a fresh NewEventsStore on the same MemDB) before, between and after commits also with pending events, loads of committed and never-committed heights, a final sweep over every committed height; every loaded batch compared field by field with the monitor's own copy and with Model/EventStore.v; non-trivial = at least one restart and one compacted event loaded back equal; distinct = distinct case text; with n >= 200 (or the extra argument `wrap`) a dedicated case pushes the number of distinct validator keys to 65534 (must round-trip), then across 65535 with a restart at the limit; with n >= 1000 (or `wrap heavy`) that case also stores 301000 distinct addresses and a second case crosses 65536/65537 without a restart",
		Dist: c.Dist, Samples: c.Samples, Monitor: mon, Extra: extra})
}

// c24Wrap: the dedicated sub-case.  Phase B: 65534 distinct validator keys in 8 batches with
// restarts; phase A (first variant only): 300000 distinct addresses in 30 batches with restarts;
// then a restart and a full re-load — all of this must round-trip.  Phase C crosses the uint16
// limit; from there every deviation is reported under the key c24-pubkey-id-wrap.
func c24Wrap(c *Cases, mon *[]MonitorFailure, seen map[string]bool, r *Rng, restartAtLimit, withAddresses bool) map[string]interface{} {
	x := newC24Run(c, mon, seen)
	mon0 := len(*mon)
	c.Begin(11)
	// phase B: keys 1..65534
	key := 0
	h := uint32(200)
	var khs []uint32
	nextKeyEvent := func() events.Event {
		key++
		p := c24PkIdx(uint64(key))
		a := c24AddrIdx(uint64(1 + key%1000))
		switch key % 4 {
		case 0:
			return &events.JailEvent{ValidatorPubKey: p, JailedUntil: uint64(key)}
		case 1:
			return &events.RewardEvent{Role: c24Roles[key%3], Address: a, Amount: strconv.Itoa(key), ValidatorPubKey: p, ForCoin: 0}
		case 2:
			return &events.UnbondEvent{Address: a, Amount: strconv.Itoa(key), Coin: 1, ValidatorPubKey: &p}
		default:
			return &events.SlashEvent{Address: a, Amount: strconv.Itoa(key), Coin: 2, ValidatorPubKey: p}
		}
	}
	for key < 65534 {
		from := key + 1
		for k := 0; k < 8192 && key < 65534; k++ {
			x.add(nextKeyEvent(), true)
		}
		x.trace = append(x.trace, fmt.Sprintf("add jail/reward/unbond/slash events with fresh validator keys %d..%d", from, key))
		h++
		x.commit(h)
		khs = append(khs, h)
		if len(khs)%3 == 0 {
			x.restart()
		}
	}
	// phase A: addresses 1001..
	naddr := 1000
	var hs []uint32
	h = 100
	if withAddresses {
		for b := 0; b < 30; b++ {
			for k := 0; k < 10000; k++ {
				naddr++
				a := c24AddrIdx(uint64(naddr))
				var e events.Event
				if k%2 == 0 {
					e = &events.UnlockEvent{Address: a, Amount: strconv.Itoa(naddr), Coin: uint64(k)}
				} else {
					e = &events.OrderExpiredEvent{ID: uint64(k), Address: a, Coin: 1, Amount: strconv.Itoa(naddr)}
				}
				x.add(e, true)
			}
			x.trace = append(x.trace, fmt.Sprintf("add 10000 unlock/orderExpired events with fresh addresses %d..%d", naddr-9999, naddr))
			h++
			x.commit(h)
			hs = append(hs, h)
			if b == 12 {
				x.restart()
				x.load(hs[r.Intn(len(hs))])
			}
		}
	}
	// 65534 distinct keys (and 301000 addresses): everything must still round-trip after a restart
	x.restart()
	for _, hh := range khs {
		x.load(hh)
	}
	if len(hs) > 0 {
		x.load(hs[0])
		x.load(hs[len(hs)-1])
		x.load(hs[r.Intn(len(hs))])
	}
	pre := len(*mon) - mon0
	// phase C: cross the limit
	x.wrapKey = "c24-pubkey-id-wrap"
	x.add(nextKeyEvent(), false) // key 65535 (a slash event)
	x.commit(300)
	x.load(300)
	if restartAtLimit {
		// 65535 keys known, restart: loadPubKeys' bound uint16(65535)+1 = 0 loads no key at all
		x.restart()
		x.load(khs[0])
		x.load(300)
		// the restarted store starts numbering at 1 again and overwrites the table
		x.add(nextKeyEvent(), false) // key 65536 (jail)
		x.add(nextKeyEvent(), false) // key 65537 (reward)
		x.commit(301)
		x.load(301)
		x.load(khs[0])
		x.restart()
		x.load(301)
		x.load(khs[0])
	} else {
		// same store object: the 65536-th key gets id uint16(65535)+1 = 0, the id of "no key"
		x.add(nextKeyEvent(), false) // key 65536 (jail)
		x.add(&events.UnbondEvent{Address: c24AddrIdx(7), Amount: "5", Coin: 3, ValidatorPubKey: nil}, false)
		x.commit(301)
		x.load(301)
		// the 65537-th key gets id 1 and replaces key 1
		x.add(nextKeyEvent(), false) // key 65537 (reward)
		x.commit(302)
		x.load(302)
		x.load(khs[0])
		// and the persisted counter is uint16(65536) = 0: a restart finds no keys
		x.restart()
		x.load(khs[1])
		x.load(302)
	}
	c.End(true, "id-limit")
	return map[string]interface{}{"addresses": naddr, "pubkeys": key, "monitor_failures_before_limit": pre, "panics": x.panics, "loads_equal": x.loadsOK}
}
