package main

// c17.go — C17 "validator set and powers follow the stake ranking", node level.
//
// Genesis generators build 60-130 candidates (equal-stake ties, stakes at 1000 BIP +- 1 pip,
// offline candidates, pending updates with arbitrary stale bip values, optionally a reserve coin)
// and/or one candidate with 990-1010 delegators; blocks carry Delegate / SetCandidateOff /
// SetCandidateOn / DeclareCandidacy transactions.  Every run of Blockchain.updateValidators
// (Import + InitChain, every 12th block, every block that drops a validator) is compared with
// Model/Ranking.v (dispatch model 15):
//   op 1  GetNewCandidates + powers + removals      inputs from the POST export, outputs = the ValidatorUpdates
//   op 2  RecalculateStakesV2 deletions              inputs from PRE (validators) and POST (stakes), outputs = RemoveCandidateEvents
//   op 3  recalculateStakes of one candidate         inputs from the PRE export, outputs = POST stakes, StakeKickEvents, total
// and checked by monitors written from the property text (keys c17-...).

import (
	"fmt"
	"math/big"
	"sort"

	eventsdb "github.com/MinterTeam/minter-go-node/coreV2/events"
	"github.com/MinterTeam/minter-go-node/coreV2/state/candidates"
	"github.com/MinterTeam/minter-go-node/coreV2/transaction"
	"github.com/MinterTeam/minter-go-node/coreV2/types"
	"github.com/MinterTeam/minter-go-node/coreV2/validators"
	"github.com/MinterTeam/minter-go-node/formula"
	abci "github.com/tendermint/tendermint/abci/types"
)

func init() { commands["c17"] = runC17 }

// literal of RecalculateStakesV2 (coreV2/state/candidates/candidates.go: len(candidates) < 100, candidates[100:]);
// the Coq side takes it from Generated/Consts.v (max_candidates_kept), this copy only feeds op 2 and the monitor
const c17MaxKept = 100

var c17MinStake = pip(1000) // the property's "1000 base-coin"
var c17Scale = Z(100000000)  // the property's power unit is not named in the text; the formula check uses 10^8 as coded

type c17Run struct {
	c       *Cases
	mon     []MonitorFailure
	where   string
	stat    map[string]int
	pubID   map[types.Pubkey]uint64
	nontriv bool
	monSeen map[string]bool
	// genesis only: the observed bip values of reserve-coin stakes come from a later recalculation than the
	// one compared (see runC17): they are wildcards, and the rank comparisons that need exact totals are skipped
	fuzzyBips bool
}

func (x *c17Run) fail(key, what string) {
	k := key + "|" + x.where
	if x.monSeen[k] && len(x.mon) > 40 {
		return
	}
	x.monSeen[k] = true
	x.mon = append(x.mon, MonitorFailure{What: "C17: " + what, Key: key, Replay: x.where})
}

type wlKey struct {
	cand  uint64
	owner types.Address
	coin  uint64
}

func c17Wait(st *types.AppState) map[wlKey]*big.Int {
	m := map[wlKey]*big.Int{}
	for _, w := range st.Waitlist {
		k := wlKey{w.CandidateID, w.Owner, w.Coin}
		if m[k] == nil {
			m[k] = big.NewInt(0)
		}
		m[k].Add(m[k], bi(w.Value))
	}
	return m
}

func c17Cands(st *types.AppState) map[types.Pubkey]*types.Candidate {
	m := map[types.Pubkey]*types.Candidate{}
	for i := range st.Candidates {
		m[st.Candidates[i].PubKey] = &st.Candidates[i]
	}
	return m
}

func updPub(u abci.ValidatorUpdate) types.Pubkey {
	var p types.Pubkey
	copy(p[:], u.PubKey.GetEd25519())
	return p
}

type ownCoin struct {
	owner types.Address
	coin  uint64
}

// sums of stakes+updates per (owner, coin)
func c17Sums(stakes, updates []types.Stake) map[ownCoin]*big.Int {
	m := map[ownCoin]*big.Int{}
	for _, l := range [][]types.Stake{stakes, updates} {
		for _, s := range l {
			k := ownCoin{s.Owner, s.Coin}
			if m[k] == nil {
				m[k] = big.NewInt(0)
			}
			m[k].Add(m[k], bi(s.Value))
		}
	}
	return m
}

// simple total: the bip total a candidate must have after the recalculation when it only holds base
// coin and nothing can be kicked (distinct delegators fit into the slots); nil otherwise
func c17SimpleTotal(stakes, updates []types.Stake) *big.Int {
	t := big.NewInt(0)
	keys := map[ownCoin]bool{}
	for _, l := range [][]types.Stake{stakes, updates} {
		for _, s := range l {
			if s.Coin != 0 {
				return nil
			}
			keys[ownCoin{s.Owner, s.Coin}] = true
			t.Add(t, bi(s.Value))
		}
	}
	if len(keys) > candidates.MaxDelegatorsPerCandidate {
		return nil
	}
	return t
}

// coinsCache pairs of calculateBipValue for the reserve coins delegated anywhere in the state:
// (coin, totalDelegatedBasecoin, totalDelegatedValue); the bancor part is the real formula package (oracle)
func c17Rates(st *types.AppState, slotsOf func(*types.Candidate) ([]types.Stake, []types.Stake)) []*big.Int {
	tot := map[uint64]*big.Int{}
	for i := range st.Candidates {
		ss, us := slotsOf(&st.Candidates[i])
		for _, l := range [][]types.Stake{ss, us} {
			for _, s := range l {
				if s.Coin == 0 {
					continue
				}
				if tot[s.Coin] == nil {
					tot[s.Coin] = big.NewInt(0)
				}
				tot[s.Coin].Add(tot[s.Coin], bi(s.Value))
			}
		}
	}
	var ids []uint64
	for id := range tot {
		ids = append(ids, id)
	}
	sort.Slice(ids, func(i, j int) bool { return ids[i] < ids[j] })
	var out []*big.Int
	for _, id := range ids {
		for _, cn := range st.Coins {
			if cn.ID != id {
				continue
			}
			vol, res := bi(cn.Volume), bi(cn.Reserve)
			nonLocked := new(big.Int).Sub(vol, tot[id])
			b := new(big.Int).Sub(res, formula.CalculateSaleReturn(vol, res, uint32(cn.Crr), nonLocked))
			out = append(out, Z(int64(id)), b, tot[id])
		}
	}
	return out
}

func plainSlots(c *types.Candidate) ([]types.Stake, []types.Stake) { return c.Stakes, c.Updates }

// what SetStakes (Import) makes of a genesis candidate: the first 1000 stakes are the slots, the
// updates are the genesis updates followed by the overflow stakes
func genesisSlots(c *types.Candidate) ([]types.Stake, []types.Stake) {
	if len(c.Stakes) <= candidates.MaxDelegatorsPerCandidate {
		return c.Stakes, c.Updates
	}
	us := append(append([]types.Stake{}, c.Updates...), c.Stakes[candidates.MaxDelegatorsPerCandidate:]...)
	return c.Stakes[:candidates.MaxDelegatorsPerCandidate], us
}

type c17Events struct {
	kicks   map[types.Pubkey][]*eventsdb.StakeKickEvent
	removed []types.Pubkey
	// PayRewardsV5Fix (same EndBlock, before updateValidators) pays every reward as a pending update of
	// the validator's candidate: candidate.AddUpdate(base coin, amount, bipValue = amount, receiver), one
	// RewardEvent per AddUpdate in the same order
	rewards map[types.Pubkey][]types.Stake
}

func c17LoadEvents(nd *Node, h uint64) *c17Events {
	ev := &c17Events{kicks: map[types.Pubkey][]*eventsdb.StakeKickEvent{}, rewards: map[types.Pubkey][]types.Stake{}}
	for _, e := range nd.App.VerifEventsDB().LoadEvents(uint32(h)) {
		switch x := e.(type) {
		case *eventsdb.StakeKickEvent:
			ev.kicks[x.ValidatorPubKey] = append(ev.kicks[x.ValidatorPubKey], x)
		case *eventsdb.RemoveCandidateEvent:
			ev.removed = append(ev.removed, x.CandidatePubKey)
		case *eventsdb.RewardEvent:
			ev.rewards[x.ValidatorPubKey] = append(ev.rewards[x.ValidatorPubKey], types.Stake{Owner: x.Address, Coin: 0, Value: x.Amount, BipValue: x.Amount})
		}
	}
	return ev
}

// update handles one run of updateValidators.
//   pre      state the recalculation started from (nil: unknown, e.g. transactions in the same block)
//   slotsOf  how pre's candidates map to slots/updates (genesis import or plain export)
//   post     export after the update
//   ups      the ValidatorUpdates returned; old: the validator updates in force before (appdb)
//   due      height the frozen funds of removed candidates must be due at
func (x *c17Run) update(pre *types.AppState, slotsOf func(*types.Candidate) ([]types.Stake, []types.Stake), preVals []types.Validator,
	post *types.AppState, ups []abci.ValidatorUpdate, old []abci.ValidatorUpdate, ev *c17Events, due uint64, postValsKnown bool, tag string) {
	x.updateSel(pre, slotsOf, preVals, post, post, ups, old, ev, due, postValsKnown, tag)
}

// updateSel: selPost is the state the selection ran on when it differs from post (genesis: Import
// recalculates and deletes, InitChain's updateValidators recalculates again before selecting)
func (x *c17Run) updateSel(pre *types.AppState, slotsOf func(*types.Candidate) ([]types.Stake, []types.Stake), preVals []types.Validator,
	recalcPost *types.AppState, post *types.AppState, ups []abci.ValidatorUpdate, old []abci.ValidatorUpdate, ev *c17Events, due uint64, postValsKnown bool, tag string) {
	x.stat["updates"]++
	postC := c17Cands(post)
	for _, c := range post.Candidates {
		x.pubID[c.PubKey] = c.ID
	}
	if pre != nil {
		for _, c := range pre.Candidates {
			x.pubID[c.PubKey] = c.ID
		}
	}
	count := validators.GetValidatorsCountForBlock(due)

	// ---- op 1: selection, powers, removals --------------------------------------------------
	cs := make([]*types.Candidate, 0, len(post.Candidates))
	for i := range post.Candidates {
		cs = append(cs, &post.Candidates[i])
	}
	sort.Slice(cs, func(i, j int) bool { return cs[i].ID < cs[j].ID })
	in := L(Z(1), Z(int64(count)), Z(int64(len(cs))))
	for _, c := range cs {
		in = append(in, Z(int64(c.ID)), b2z(c.Status == candidates.CandidateStatusOnline), bi(c.TotalBipStake))
	}
	in = append(in, Z(int64(len(old))))
	for _, o := range old {
		in = append(in, Z(int64(x.pubID[updPub(o)])))
	}
	var sel, rem []abci.ValidatorUpdate
	for _, u := range ups {
		if u.Power > 0 {
			sel = append(sel, u)
		} else {
			rem = append(rem, u)
		}
	}
	out := L(Z(0), Z(int64(len(sel))))
	for _, u := range sel {
		out = append(out, Z(int64(x.pubID[updPub(u)])))
	}
	for _, u := range sel {
		out = append(out, Z(u.Power))
	}
	out = append(out, Z(int64(len(rem))))
	for _, u := range rem {
		out = append(out, Z(int64(x.pubID[updPub(u)])))
	}
	x.c.Op(in, out)
	x.stat["op1"]++

	// ---- monitors on the selection (property text, independent of the model) -------------------
	selSet := map[types.Pubkey]bool{}
	total := big.NewInt(0)
	var minSel *big.Int
	for _, u := range sel {
		p := updPub(u)
		selSet[p] = true
		c := postC[p]
		if c == nil {
			x.fail("c17-validator-not-candidate", fmt.Sprintf("%s: validator %s is not a candidate", tag, p.String()))
			continue
		}
		st := bi(c.TotalBipStake)
		total.Add(total, st)
		if minSel == nil || st.Cmp(minSel) < 0 {
			minSel = st
		}
		if c.Status != candidates.CandidateStatusOnline {
			x.fail("c17-offline-validator", fmt.Sprintf("%s: candidate %d is offline and was made validator", tag, c.ID))
		}
		if st.Cmp(c17MinStake) < 0 {
			x.fail("c17-below-min-validator", fmt.Sprintf("%s: candidate %d with stake %s < 1000 BIP was made validator", tag, c.ID, st))
		}
	}
	if len(sel) > 64 {
		x.fail("c17-too-many-validators", fmt.Sprintf("%s: %d validators", tag, len(sel)))
	}
	nElig := 0
	tieAtCut := false
	for _, c := range post.Candidates {
		if c.Status != candidates.CandidateStatusOnline || bi(c.TotalBipStake).Cmp(c17MinStake) < 0 {
			continue
		}
		nElig++
		if selSet[c.PubKey] {
			continue
		}
		if len(sel) < 64 {
			x.fail("c17-eligible-left-out", fmt.Sprintf("%s: candidate %d (online, stake %s) is not a validator although only %d seats are taken", tag, c.ID, c.TotalBipStake, len(sel)))
		} else if minSel != nil && bi(c.TotalBipStake).Cmp(minSel) > 0 {
			x.fail("c17-not-top", fmt.Sprintf("%s: candidate %d with stake %s is left out while a validator has stake %s", tag, c.ID, c.TotalBipStake, minSel))
		} else if minSel != nil && bi(c.TotalBipStake).Cmp(minSel) == 0 {
			tieAtCut = true
		}
	}
	if nElig > 64 {
		x.stat["updates_more_than_64_eligible"]++
	}
	if tieAtCut {
		x.stat["updates_tie_at_the_cut"]++
	}
	for _, u := range sel {
		c := postC[updPub(u)]
		if c == nil || total.Sign() == 0 {
			continue
		}
		want := new(big.Int).Div(new(big.Int).Mul(bi(c.TotalBipStake), c17Scale), total)
		if want.Sign() == 0 {
			want = Z(1)
			x.stat["powers_raised_to_1"]++
		}
		if want.Cmp(Z(u.Power)) != 0 {
			x.fail("c17-power", fmt.Sprintf("%s: candidate %d stake %s of total %s got power %d, floor(stake*10^8/total) (min 1) is %s", tag, c.ID, c.TotalBipStake, total, u.Power, want))
		}
	}
	// consensus sees the new set: every previously active validator that is not re-elected is sent with power 0
	remSet := map[types.Pubkey]bool{}
	for _, u := range rem {
		remSet[updPub(u)] = true
	}
	for _, o := range old {
		p := updPub(o)
		if !selSet[p] && !remSet[p] {
			x.fail("c17-stale-validator", fmt.Sprintf("%s: previous validator %s is neither re-elected nor removed with power 0", tag, p.String()))
		}
	}
	for p := range remSet {
		if selSet[p] {
			x.fail("c17-stale-validator", fmt.Sprintf("%s: validator %s both elected and removed", tag, p.String()))
		}
	}
	if postValsKnown {
		if len(post.Validators) != len(sel) {
			x.fail("c17-state-validators", fmt.Sprintf("%s: state holds %d validators, %d were announced", tag, len(post.Validators), len(sel)))
		}
		for _, v := range post.Validators {
			if !selSet[v.PubKey] {
				x.fail("c17-state-validators", fmt.Sprintf("%s: state validator %s was not announced", tag, v.PubKey.String()))
			}
		}
	}
	if len(rem) > 0 {
		x.stat["updates_with_removed_validators"]++
	}

	// ---- removal of candidates ranked beyond 100 -------------------------------------------------
	post = recalcPost
	postC = c17Cands(post)
	isVal := map[types.Pubkey]bool{}
	for _, v := range preVals {
		isVal[v.PubKey] = true
	}
	// whoever stays and is not a current validator must rank within the first 100: fire only when
	// at least 100 remaining candidates have a strictly larger stake (any tie-break agrees then)
	for _, c := range post.Candidates {
		if isVal[c.PubKey] {
			continue
		}
		larger := 0
		for _, d := range post.Candidates {
			if bi(d.TotalBipStake).Cmp(bi(c.TotalBipStake)) > 0 {
				larger++
			}
		}
		if larger >= c17MaxKept {
			x.fail("c17-beyond-100-kept", fmt.Sprintf("%s: candidate %d (not a validator) stays although %d candidates have a larger stake", tag, c.ID, larger))
		}
	}
	if pre == nil {
		return
	}
	preWait, postWait := c17Wait(pre), c17Wait(post)
	var deleted []*types.Candidate
	for i := range pre.Candidates {
		c := &pre.Candidates[i]
		if postC[c.PubKey] == nil {
			deleted = append(deleted, c)
			if isVal[c.PubKey] {
				x.fail("c17-validator-removed", fmt.Sprintf("%s: candidate %d is a current validator and was removed", tag, c.ID))
			}
		}
	}
	// op 2
	simpleAll := true
	delTotal := map[types.Pubkey]*big.Int{}
	for _, c := range deleted {
		ss, us := slotsOf(c)
		t := c17SimpleTotal(ss, us)
		if t == nil {
			simpleAll = false
		}
		delTotal[c.PubKey] = t
	}
	if simpleAll && !x.fuzzyBips {
		pcs := make([]*types.Candidate, 0, len(pre.Candidates))
		for i := range pre.Candidates {
			pcs = append(pcs, &pre.Candidates[i])
		}
		sort.Slice(pcs, func(i, j int) bool { return pcs[i].ID > pcs[j].ID })
		in2 := L(Z(2), Z(c17MaxKept), Z(int64(len(pcs))))
		for _, c := range pcs {
			st := delTotal[c.PubKey]
			if pc := postC[c.PubKey]; pc != nil {
				st = bi(pc.TotalBipStake)
			}
			in2 = append(in2, Z(int64(c.ID)), b2z(isVal[c.PubKey]), st)
		}
		out2 := L(Z(int64(len(ev.removed))))
		for _, p := range ev.removed {
			out2 = append(out2, Z(int64(x.pubID[p])))
		}
		x.c.Op(in2, out2)
		x.stat["op2"]++
		if len(deleted) > 0 {
			x.stat["op2_with_deletions"]++
			x.nontriv = true
		}
	} else if x.fuzzyBips {
		x.stat["op2_skipped_genesis_rates_changed"]++
	} else {
		x.stat["op2_skipped_deleted_candidate_not_simple"]++
	}
	if len(ev.removed) != len(deleted) {
		x.fail("c17-remove-events", fmt.Sprintf("%s: %d RemoveCandidateEvents, %d candidates disappeared", tag, len(ev.removed), len(deleted)))
	}
	x.stat["candidates_deleted"] += len(deleted)
	if tag != "genesis" {
		x.stat["candidates_deleted_after_genesis"] += len(deleted)
	}
	for _, c := range deleted {
		// certainly within the first 100: fewer than 100 others can be ranked before it
		if t := delTotal[c.PubKey]; t != nil && !x.fuzzyBips {
			notSmaller := 0
			for _, d := range post.Candidates {
				if bi(d.TotalBipStake).Cmp(t) >= 0 {
					notSmaller++
				}
			}
			notSmaller += len(deleted) - 1
			if notSmaller < c17MaxKept {
				x.fail("c17-removed-within-100", fmt.Sprintf("%s: candidate %d (stake %s) was removed although at most %d candidates rank before it", tag, c.ID, t, notSmaller))
			}
		}
		// all its stakes and updates unbonded: frozen funds of equal value due at height+UnbondPeriod
		// (what was kicked in the same recalculation sits in the waitlist instead)
		ss, us := slotsOf(c)
		want := c17Sums(ss, us)
		got := map[ownCoin]*big.Int{}
		for _, f := range post.FrozenFunds {
			if f.CandidateKey != nil && *f.CandidateKey == c.PubKey && f.Height == due+types.GetUnbondPeriod() {
				k := ownCoin{f.Address, f.Coin}
				if got[k] == nil {
					got[k] = big.NewInt(0)
				}
				got[k].Add(got[k], bi(f.Value))
			}
		}
		for k, w := range want {
			g := big.NewInt(0)
			if got[k] != nil {
				g.Set(got[k])
			}
			wk := wlKey{c.ID, k.owner, k.coin}
			if postWait[wk] != nil {
				g.Add(g, postWait[wk])
			}
			if preWait[wk] != nil {
				g.Sub(g, preWait[wk])
			}
			if g.Cmp(w) != 0 {
				x.fail("c17-removed-not-unbonded", fmt.Sprintf("%s: removed candidate %d: %s coin %d staked %s, frozen until %d (+waitlist) %s", tag, c.ID, k.owner.String(), k.coin, w, due+types.GetUnbondPeriod(), g))
			}
		}
		for k := range got {
			if want[k] == nil {
				x.fail("c17-removed-not-unbonded", fmt.Sprintf("%s: removed candidate %d: frozen fund for %s coin %d without a stake", tag, c.ID, k.owner.String(), k.coin))
			}
		}
	}

	// ---- op 3 + monitors: recalculation of the candidates that had pending updates -------------------
	rates := c17Rates(pre, slotsOf)
	emitted := 0
	order := make([]*types.Candidate, 0, len(pre.Candidates))
	for i := range pre.Candidates {
		order = append(order, &pre.Candidates[i])
	}
	sort.SliceStable(order, func(i, j int) bool {
		si, ui := slotsOf(order[i])
		sj, uj := slotsOf(order[j])
		return len(si)+len(ui) > len(sj)+len(uj)
	})
	for _, c := range order {
		ss, us := slotsOf(c)
		pc := postC[c.PubKey]
		kicks := ev.kicks[c.PubKey]
		if pc == nil {
			continue
		}
		if len(pc.Stakes) > 1000 {
			x.fail("c17-too-many-slots", fmt.Sprintf("%s: candidate %d holds %d stakes", tag, c.ID, len(pc.Stakes)))
		}
		if len(pc.Updates) != 0 {
			x.fail("c17-updates-left", fmt.Sprintf("%s: candidate %d still has %d pending updates after the recalculation", tag, c.ID, len(pc.Updates)))
		}
		if len(us) == 0 && len(kicks) == 0 {
			continue
		}
		x.stat["candidates_with_updates"]++
		// nothing lost, per delegator and coin: old stake + updates = new stake + what went to the waitlist
		want := c17Sums(ss, us)
		got := c17Sums(pc.Stakes, nil)
		kickSum := map[ownCoin]*big.Int{}
		for _, k := range kicks {
			kk := ownCoin{k.Address, k.Coin}
			if kickSum[kk] == nil {
				kickSum[kk] = big.NewInt(0)
			}
			kickSum[kk].Add(kickSum[kk], bi(k.Amount))
		}
		keys := map[ownCoin]bool{}
		for k := range want {
			keys[k] = true
		}
		for k := range got {
			keys[k] = true
		}
		for k := range keys {
			w, g := big.NewInt(0), big.NewInt(0)
			if want[k] != nil {
				w.Set(want[k])
			}
			if got[k] != nil {
				g.Set(got[k])
			}
			wk := wlKey{c.ID, k.owner, k.coin}
			d := big.NewInt(0)
			if postWait[wk] != nil {
				d.Add(d, postWait[wk])
			}
			if preWait[wk] != nil {
				d.Sub(d, preWait[wk])
			}
			g.Add(g, d)
			if g.Cmp(w) != 0 {
				x.fail("c17-value-lost", fmt.Sprintf("%s: candidate %d, %s coin %d: stake+updates before %s, stake+waitlist after %s", tag, c.ID, k.owner.String(), k.coin, w, g))
			}
			ks := big.NewInt(0)
			if kickSum[k] != nil {
				ks = kickSum[k]
			}
			if ks.Cmp(d) != 0 {
				x.fail("c17-kick-not-in-waitlist", fmt.Sprintf("%s: candidate %d, %s coin %d: kicked %s, waitlist grew by %s", tag, c.ID, k.owner.String(), k.coin, ks, d))
			}
		}
		if len(kicks) > 0 {
			x.stat["kicks"] += len(kicks)
			x.nontriv = true
			if len(pc.Stakes) < candidates.MaxDelegatorsPerCandidate {
				x.fail("c17-kick-with-free-slot", fmt.Sprintf("%s: candidate %d kicked %d stakes while holding only %d", tag, c.ID, len(kicks), len(pc.Stakes)))
			}
			// the loser is never larger than a stake that stays (base coin: bip value = value)
			var minStay *big.Int
			for _, s := range pc.Stakes {
				if s.Coin == 0 && (minStay == nil || bi(s.Value).Cmp(minStay) < 0) {
					minStay = bi(s.Value)
				}
			}
			for _, k := range kicks {
				if k.Coin == 0 && minStay != nil {
					switch bi(k.Amount).Cmp(minStay) {
					case 1:
						x.fail("c17-kicked-larger", fmt.Sprintf("%s: candidate %d: %s was kicked while a stake of %s stays", tag, c.ID, k.Amount, minStay))
					case 0:
						x.stat["kicks_equal_to_smallest_staying"]++
						// tie: an incoming delegation that is not smaller than the smallest stake replaces it
						// (the old stake goes to the waitlist, not the newcomer)
						incoming, hadStake := false, false
						for _, u := range us {
							if u.Owner == k.Address && u.Coin == 0 && u.Value == k.Amount {
								incoming = true
							}
						}
						for _, st := range ss {
							if st.Owner == k.Address && st.Coin == 0 {
								hadStake = true
							}
						}
						// (with several incoming delegations in one recalculation a newcomer that got in can itself be the
						// smallest for a later, larger one: only the case without such a rival is decided here)
						rival := false
						for _, u := range us {
							if u.Coin == 0 && u.Owner != k.Address && bi(u.Value).Cmp(bi(k.Amount)) >= 0 {
								rival = true
							}
						}
						if incoming && !hadStake && !rival {
							for _, st := range pc.Stakes {
								if st.Coin != 0 || bi(st.Value).Cmp(minStay) != 0 {
									continue
								}
								for _, o := range ss {
									if o.Owner == st.Owner && o.Coin == 0 && o.Value == st.Value {
										x.fail("c17-tie-incoming-loses", fmt.Sprintf("%s: candidate %d: the incoming delegation of %s by %s went to the waitlist although it is not smaller than the stake of %s by %s, which stays", tag, c.ID, k.Amount, k.Address.String(), st.Value, st.Owner.String()))
									}
								}
							}
						}
					}
				}
			}
		}
		// op 3 (a bounded number per update, the largest first)
		if emitted >= 4 {
			continue
		}
		emitted++
		in3 := L(Z(3), Z(candidates.MaxDelegatorsPerCandidate), Z(int64(len(rates)/3)))
		in3 = append(in3, rates...)
		in3 = append(in3, Z(int64(len(ss))))
		for _, s := range ss {
			in3 = append(in3, addrZ(s.Owner), Z(int64(s.Coin)), bi(s.Value))
		}
		in3 = append(in3, Z(int64(len(us))))
		for _, s := range us {
			in3 = append(in3, addrZ(s.Owner), Z(int64(s.Coin)), bi(s.Value), bi(s.BipValue))
		}
		out3 := L(Z(0), Z(int64(len(pc.Stakes))))
		totalOut := bi(pc.TotalBipStake)
		for _, s := range pc.Stakes {
			bv := bi(s.BipValue)
			if x.fuzzyBips && s.Coin != 0 {
				bv, totalOut = Z(-999), Z(-999)
			}
			out3 = append(out3, addrZ(s.Owner), Z(int64(s.Coin)), bi(s.Value), bv)
		}
		out3 = append(out3, Z(int64(len(kicks))))
		for _, k := range kicks {
			out3 = append(out3, addrZ(k.Address), Z(int64(k.Coin)), bi(k.Amount))
		}
		out3 = append(out3, totalOut)
		x.c.Op(in3, out3)
		x.stat["op3"]++
		if len(ss)+len(us) > candidates.MaxDelegatorsPerCandidate {
			x.stat["op3_more_than_1000_entries"]++
		}
	}
}

func synthAddr(i int) types.Address {
	var a types.Address
	a[0] = 0xD0
	a[17] = byte(i >> 16)
	a[18] = byte(i >> 8)
	a[19] = byte(i)
	return a
}

func runC17(seed uint64, n int, out, stats string, _ []string) {
	c := NewCases(out)
	x := &c17Run{c: c, stat: map[string]int{}, monSeen: map[string]bool{}}
	for i := 0; i < n; i++ {
		s := seed*1000003 + uint64(i)
		r := NewRng(s)
		x.where = fmt.Sprintf("vharness c17 -seed %d -n %d (history %d, seed %d)", seed, n, i, s)
		x.pubID = map[types.Pubkey]uint64{}
		x.nontriv = false
		// kinds: 0 many candidates; 1 the 1000-slot candidate among few; 2 both
		kind := i % 3
		nc := 10 + r.Intn(10)
		if kind != 1 {
			nc = 60 + r.Intn(71)
			if r.Intn(3) == 0 {
				nc = 96 + r.Intn(5) // 96..100: DeclareCandidacy transactions push the count beyond 100 later
			}
		}
		nv := 1 + r.Intn(4)
		if r.Intn(2) == 0 {
			nv = 1 + r.Intn(minInt(nc, 64))
		}
		big1 := -1
		nDeleg := 0
		if kind != 0 {
			big1 = r.Intn(nc)
			nDeleg = 990 + r.Intn(21)
		}
		useCoin := r.Intn(3) == 0
		whale := r.Intn(6) == 0 // one candidate with 2*10^11 .. 10^13 BIP: the small validators' powers round down to 0 -> 1
		nAcc := 30
		popular := []*big.Int{pip(5000), pip(1000), new(big.Int).Sub(pip(1000), Z(1)), new(big.Int).Add(pip(1000), Z(1)), pip(20000), pip(999)}
		spec := &GenesisSpec{NAccounts: nAcc, Balance: pip(100000000), NVals: nv, ExtraCands: nc - nv}
		spec.Mutate = func(st *types.AppState) {
			coinVol := big.NewInt(0)
			rndStake := func() *big.Int {
				switch r.Intn(5) {
				case 0, 1:
					return new(big.Int).Set(popular[r.Intn(len(popular))])
				case 2:
					return new(big.Int).Add(pip(int64(900+r.Intn(300))), r.Big(18))
				default:
					return pip(int64(500 + r.Intn(60000)))
				}
			}
			for ci := range st.Candidates {
				cd := &st.Candidates[ci]
				owner := cd.OwnerAddress
				v := rndStake()
				cd.Stakes = []types.Stake{{Owner: owner, Coin: 0, Value: v.String(), BipValue: v.String()}}
				cd.Updates = nil
				total := new(big.Int).Set(v)
				if r.Intn(6) == 0 {
					cd.Status = candidates.CandidateStatusOffline
				}
				// a few extra delegators, pending updates (some for existing delegators, some repeated,
				// with arbitrary stale bip values), sometimes in the reserve coin
				for k := 0; k < r.Intn(3); k++ {
					w := pip(int64(1 + r.Intn(300)))
					cd.Stakes = append(cd.Stakes, types.Stake{Owner: synthAddr(100000 + ci*10 + k), Coin: 0, Value: w.String(), BipValue: w.String()})
					total.Add(total, w)
				}
				if useCoin && r.Intn(4) == 0 {
					w := pip(int64(1 + r.Intn(2000)))
					cd.Stakes = append(cd.Stakes, types.Stake{Owner: synthAddr(200000 + ci), Coin: 1, Value: w.String(), BipValue: "0"})
					coinVol.Add(coinVol, w)
				}
				if r.Intn(3) == 0 {
					for k := 0; k < 1+r.Intn(3); k++ {
						w := pip(int64(1 + r.Intn(400)))
						o := synthAddr(100000 + ci*10 + r.Intn(4))
						coin := uint64(0)
						if useCoin && r.Intn(4) == 0 {
							coin = 1
							o = synthAddr(200000 + ci + r.Intn(2))
							coinVol.Add(coinVol, w)
						}
						stale := []string{"0", w.String(), r.Big(22).String()}[r.Intn(3)]
						cd.Updates = append(cd.Updates, types.Stake{Owner: o, Coin: coin, Value: w.String(), BipValue: stale})
					}
				}
				cd.TotalBipStake = total.String()
			}
			// ties exactly at the 64th seat and at rank 100: a few single-stake candidates get the stake found there
			single := func(ci int, v *big.Int) {
				cd := &st.Candidates[ci]
				cd.Stakes = []types.Stake{{Owner: cd.OwnerAddress, Coin: 0, Value: v.String(), BipValue: v.String()}}
				cd.Updates = nil
				cd.TotalBipStake = v.String()
				cd.Status = candidates.CandidateStatusOnline
			}
			if whale {
				single(r.Intn(len(st.Candidates)), new(big.Int).Mul(pip(1000000000), Z(int64(200+r.Intn(9000)))))
			}
			for _, rank := range []int{64, 100} {
				if len(st.Candidates) <= rank+3 || r.Intn(2) == 0 {
					continue
				}
				var tot []*big.Int
				for _, cd := range st.Candidates {
					t := c17SimpleTotal(cd.Stakes, cd.Updates)
					if t != nil && (rank == 100 || (cd.Status == candidates.CandidateStatusOnline && t.Cmp(c17MinStake) >= 0)) {
						tot = append(tot, t)
					}
				}
				if len(tot) <= rank {
					continue
				}
				sort.Slice(tot, func(a, b int) bool { return tot[a].Cmp(tot[b]) > 0 })
				for k := 0; k < 2+r.Intn(4); k++ {
					single(r.Intn(len(st.Candidates)), tot[rank-1])
				}
			}
			if big1 >= 0 {
				cd := &st.Candidates[big1]
				cd.Stakes, cd.Updates = nil, nil
				total := big.NewInt(0)
				minV := pip(int64(5 + r.Intn(20)))
				nTies := 1 + r.Intn(4)
				var all []types.Stake
				for k := 0; k < nDeleg; k++ {
					var w *big.Int
					switch {
					case k < nTies:
						w = new(big.Int).Set(minV)
					case r.Intn(8) == 0:
						w = new(big.Int).Add(minV, Z(int64(r.Intn(3)))) // near the minimum: +0, +1, +2 pip
					default:
						w = new(big.Int).Add(minV, pip(int64(1+r.Intn(40))))
					}
					coin := uint64(0)
					if useCoin && r.Intn(40) == 0 {
						coin = 1
						coinVol.Add(coinVol, w)
					}
					all = append(all, types.Stake{Owner: synthAddr(k + 1), Coin: coin, Value: w.String(), BipValue: w.String()})
					total.Add(total, w)
				}
				// shuffle so that the minimum is not always in slot 0
				for k := len(all) - 1; k > 0; k-- {
					j := r.Intn(k + 1)
					all[k], all[j] = all[j], all[k]
				}
				if nDeleg > 1000 && r.Bool() {
					// overflow as genesis updates, with arbitrary stale bip values (the processing order)
					cd.Stakes = all[:1000]
					for _, u := range all[1000:] {
						u.BipValue = []string{"0", u.Value, r.Big(21).String()}[r.Intn(3)]
						cd.Updates = append(cd.Updates, u)
					}
				} else {
					cd.Stakes = all // SetStakes turns Stakes[1000:] into updates
				}
				// extra pending updates around the minimum: below, equal, above, and a top-up of an existing delegator
				for k := 0; k < r.Intn(5); k++ {
					w := new(big.Int).Add(minV, Z(int64(r.Intn(5)-2)))
					if r.Intn(3) == 0 {
						w = new(big.Int).Add(minV, pip(int64(r.Intn(30))))
					}
					o := synthAddr(5000 + k)
					if r.Intn(4) == 0 {
						o = synthAddr(1 + r.Intn(nDeleg))
					}
					cd.Updates = append(cd.Updates, types.Stake{Owner: o, Coin: 0, Value: w.String(), BipValue: []string{"0", w.String()}[r.Intn(2)]})
					total.Add(total, w)
				}
				cd.TotalBipStake = total.String()
				cd.Status = candidates.CandidateStatusOnline
			}
			for vi := range st.Validators {
				for ci := range st.Candidates {
					if st.Candidates[ci].PubKey == st.Validators[vi].PubKey {
						st.Validators[vi].TotalBipStake = st.Candidates[ci].TotalBipStake
					}
				}
			}
			if useCoin {
				// reserve coin 1: some free supply on account 0 plus everything delegated
				free := pip(1000000)
				coinVol = big.NewInt(0)
				for _, cd := range st.Candidates {
					for _, l := range [][]types.Stake{cd.Stakes, cd.Updates} {
						for _, s0 := range l {
							if s0.Coin == 1 {
								coinVol.Add(coinVol, bi(s0.Value))
							}
						}
					}
				}
				vol := new(big.Int).Add(free, coinVol)
				st.Coins = append(st.Coins, types.Coin{ID: 1, Name: "c17", Symbol: types.StrToCoinSymbol("CSEVENTEEN"), Volume: vol.String(), Crr: 50,
					Reserve: pip(3000000).String(), MaxSupply: pip(1000000000).String()})
				st.Accounts[0].Balance = append(st.Accounts[0].Balance, types.Balance{Coin: 1, Value: free.String()})
			}
		}
		nd := newNode(spec)
		gen := nd.Genesis
		// (no Export here: CheckState shares the candidates object with the deliver state and Export reloads the
		// stakes from the last committed tree, which would wipe the still uncommitted result of InitChain's
		// updateValidators; exports are only taken right after a Commit)
		initVals := append([]abci.ValidatorUpdate{}, nd.App.VerifAppDB().GetValidators()...)
		c.Begin(15)
		// block 1 (empty) stores the events of Import/InitChain and makes InitChain's validator set visible
		br := nd.Block(nil, nil)
		if br.Panic != "" {
			x.fail("c07-panic", "panic: "+br.Panic)
			nd.Cleanup()
			c.End(false, "panic")
			continue
		}
		ev0 := c17LoadEvents(nd, uint64(nd.Height))
		cur := nd.Export()
		{
			// the update of Import+InitChain: pre = the genesis as SetStakes loads it, post = the committed import
			// post = the export after block 1: Import's recalculation (merges, kicks, deletions) followed by
			// InitChain's second recalculation, which only re-evaluates bip values; they differ from the first
			// ones when reserve-coin stakes left the candidates (kicked or deleted) in between
			p := cur
			x.fuzzyBips = false
			if useCoin {
				for _, ks := range ev0.kicks {
					for _, k := range ks {
						if k.Coin != 0 {
							x.fuzzyBips = true
						}
					}
				}
				gc := c17Cands(&cur)
				for ci := range gen.Candidates {
					if gc[gen.Candidates[ci].PubKey] == nil {
						for _, l := range [][]types.Stake{gen.Candidates[ci].Stakes, gen.Candidates[ci].Updates} {
							for _, s0 := range l {
								if s0.Coin != 0 {
									x.fuzzyBips = true
								}
							}
						}
					}
				}
				if x.fuzzyBips {
					x.stat["genesis_reserve_coin_rates_changed_between_the_two_recalculations"]++
				}
			}
			// FINDING (own key): state.Import runs RecalculateStakesV2(s.height) while s.height is still 0 in
			// InitChain, so the stakes of the candidates removed at import are frozen until 0+UnbondPeriod, a
			// height the chain (initial height 10200001) never executes: they are never paid back and no export
			// shows them.  Report it once per history and let the equal-value check below see the funds.
			if past := nd.App.CurrentState().FrozenFunds().GetFrozenFunds(types.GetUnbondPeriod()); past != nil && len(past.List) > 0 {
				sum := big.NewInt(0)
				for _, f := range past.List {
					sum.Add(sum, f.Value)
					p.FrozenFunds = append(p.FrozenFunds, types.FrozenFund{Height: uint64(InitialHeight-1) + types.GetUnbondPeriod(), Address: f.Address,
						CandidateKey: f.CandidateKey, CandidateID: uint64(f.CandidateID), Coin: uint64(f.Coin), Value: f.Value.String()})
				}
				x.stat["genesis_funds_frozen_in_the_past"] += len(past.List)
				x.fail("c17-genesis-removal-frozen-in-the-past", fmt.Sprintf("genesis with %d candidates: the %d stakes (%s pip) of the candidates removed at import are frozen until height %d = 0+UnbondPeriod, the chain starts at %d: never released, absent from every export",
					len(gen.Candidates), len(past.List), sum, types.GetUnbondPeriod(), InitialHeight))
			}
			x.updateSel(&gen, genesisSlots, gen.Validators, &p, &cur, initVals, nil, ev0, uint64(InitialHeight-1), true, "genesis")
			x.fuzzyBips = false
		}
		// ---- blocks ---------------------------------------------------------------------------------
		nb := 12 + 12*r.Intn(2)
		nextNew := 0
		type declared struct {
			pub  types.Pubkey
			acct int
		}
		var decl []declared
		for b := 2; b <= nb; b++ {
			h := uint64(nd.Height + 1)
			isPeriod := h%stakePeriod == 0
			var txs [][]byte
			used := map[int]bool{}
			pick := func() (int, bool) {
				for t := 0; t < 8; t++ {
					a := r.Intn(nAcc)
					if !used[a] {
						used[a] = true
						return a, true
					}
				}
				return 0, false
			}
			curC := c17Cands(&cur)
			if !isPeriod {
				for t := 0; t < r.Intn(4); t++ {
					switch r.Intn(10) {
					case 0, 1, 2, 3: // delegation to the big candidate around its current minimum
						if big1 < 0 {
							continue
						}
						bc := curC[nd.Vals[big1].Pub]
						if bc == nil {
							continue
						}
						a, ok := pick()
						if !ok {
							continue
						}
						minV := pip(10)
						for k, s0 := range bc.Stakes {
							if s0.Coin == 0 && (k == 0 || bi(s0.Value).Cmp(minV) < 0) {
								minV = bi(s0.Value)
							}
						}
						v := new(big.Int).Add(minV, Z(int64(r.Intn(5)-1)))
						if r.Intn(3) == 0 {
							v = new(big.Int).Add(minV, pip(int64(r.Intn(10))))
						}
						if v.Sign() <= 0 {
							v = Z(1)
						}
						txs = append(txs, nd.MkTx(nd.Accts[a], transaction.TypeDelegate, transaction.DelegateDataV260{PubKey: bc.PubKey, Coin: 0, Value: v}, 0, 0, 1, nil))
						x.stat["tx_delegate_big"]++
					case 4, 5: // a rank-changing delegation to some candidate
						if len(cur.Candidates) == 0 {
							continue
						}
						a, ok := pick()
						if !ok {
							continue
						}
						cd := cur.Candidates[r.Intn(len(cur.Candidates))]
						v := pip(int64(1 + r.Intn(3000)))
						txs = append(txs, nd.MkTx(nd.Accts[a], transaction.TypeDelegate, transaction.DelegateDataV260{PubKey: cd.PubKey, Coin: 0, Value: v}, 0, 0, 1, nil))
						x.stat["tx_delegate"]++
					case 6, 7: // switch a candidate off / on (owner = control address = account ci % nAcc)
						ci := r.Intn(nc)
						a := ci % nAcc
						pub := nd.Vals[ci].Pub
						if len(decl) > 0 && r.Intn(3) == 0 {
							d := decl[r.Intn(len(decl))]
							a, pub = d.acct, d.pub
						}
						if used[a] {
							continue
						}
						cd := curC[pub]
						if cd == nil {
							continue
						}
						used[a] = true
						if cd.Status == candidates.CandidateStatusOnline {
							txs = append(txs, nd.MkTx(nd.Accts[a], transaction.TypeSetCandidateOffline, transaction.SetCandidateOffData{PubKey: cd.PubKey}, 0, 0, 1, nil))
							x.stat["tx_set_off"]++
						} else {
							txs = append(txs, nd.MkTx(nd.Accts[a], transaction.TypeSetCandidateOnline, transaction.SetCandidateOnData{PubKey: cd.PubKey}, 0, 0, 1, nil))
							x.stat["tx_set_on"]++
						}
					default: // a new candidate (pushes the count beyond 100 in the large histories)
						a, ok := pick()
						if !ok {
							continue
						}
						nv2 := mkVal(5000 + nextNew)
						nextNew++
						stake := pip(int64(500 + r.Intn(30000)))
						if r.Intn(3) == 0 {
							stake = new(big.Int).Set(popular[r.Intn(len(popular))])
						}
						txs = append(txs, nd.MkTx(nd.Accts[a], transaction.TypeDeclareCandidacy, transaction.DeclareCandidacyData{Address: nd.Accts[a].Addr, PubKey: nv2.Pub, Commission: 10, Coin: 0, Stake: stake}, 0, 0, 1, nil))
						decl = append(decl, declared{nv2.Pub, a})
						x.stat["tx_declare"]++
					}
				}
			}
			old := append([]abci.ValidatorUpdate{}, nd.App.VerifAppDB().GetValidators()...)
			pre := cur
			br := nd.Block(txs, nil)
			if br.Panic != "" {
				x.fail("c07-panic", "panic: "+br.Panic)
				break
			}
			for _, tr := range br.Txs {
				x.stat[fmt.Sprintf("tx_code_%d", tr.Code)]++
			}
			if len(br.Updates) == 0 && !isPeriod {
				// no validator-set update in this block: the export is only needed by the generators
				if len(txs) > 0 {
					cur = nd.Export()
				}
				continue
			}
			cur = nd.Export()
			ev := c17LoadEvents(nd, h)
			tag := fmt.Sprintf("block %d", h)
			if len(txs) == 0 {
				withRewards := func(c *types.Candidate) ([]types.Stake, []types.Stake) {
					if len(ev.rewards[c.PubKey]) == 0 {
						return c.Stakes, c.Updates
					}
					x.stat["candidates_with_reward_updates"]++
					return c.Stakes, append(append([]types.Stake{}, c.Updates...), ev.rewards[c.PubKey]...)
				}
				x.update(&pre, withRewards, pre.Validators, &cur, br.Updates, old, ev, h, true, tag)
			} else {
				x.stat["updates_in_blocks_with_txs"]++
				x.update(nil, plainSlots, pre.Validators, &cur, br.Updates, old, ev, h, true, tag)
			}
		}
		nd.Cleanup()
		c.End(x.nontriv, fmt.Sprintf("kind%d", kind))
	}
	c.Close()
	extra := map[string]interface{}{}
	for k, v := range x.stat {
		extra[k] = v
	}
	writeStats(stats, &Stats{Property: "C17", Seed: seed, Cases: c.NCases, Ops: c.NOps, NonTrivial: c.NonTriv,
		Rule: "history on the real node: genesis with 60-130 candidates (equal-stake ties, 1000 BIP +-1 pip, offline ones, pending updates with arbitrary stale bip values, a reserve coin in a third) and/or one candidate with 990-1010 delegators (ties at the minimum, overflow as stakes[1000:] or as updates), then 12 or 24 blocks with Delegate (below/equal/above the smallest stake), SetCandidateOff/On, DeclareCandidacy; every updateValidators run (Import+InitChain, period blocks, validator drops) is compared with Model/Ranking.v: op1 selection+powers+removals, op2 candidates deleted beyond rank 100, op3 slot recalculation with kicks; non-trivial = at least one kick or one deleted candidate compared; distinct = distinct case text",
		Dist: c.Dist, Samples: c.Samples, Monitor: x.mon, Extra: extra})
}

func minInt(a, b int) int {
	if a < b {
		return a
	}
	return b
}
