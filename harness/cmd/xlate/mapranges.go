package main

// mapranges.go — inventory of every `range` over a map-typed expression in the consensus packages
// of /repo, with a classification of each loop computed from the loop's syntactic shape (C08).
//
// Types come from go/types: `go list -export -deps -json` (run inside the repo, offline) gives the
// compiler's export data of every dependency; the anchored packages themselves are parsed and
// type-checked from source.  No dependency besides the standard library.
//
// The classifier FAILS CLOSED: a loop whose shape is not one of the recognised ones, or whose
// semantic side condition is not in the reviewed allow-list below (pinned by a hash of the loop's
// source, so any edit of the loop voids the review), is emitted as class Unknown and
// `all_classified` in coq/Properties/C08.v no longer evaluates to true.

import (
	"bytes"
	"crypto/sha256"
	"encoding/json"
	"fmt"
	"go/ast"
	"go/importer"
	"go/parser"
	"go/printer"
	"go/token"
	"go/types"
	"io"
	"os"
	"os/exec"
	"path/filepath"
	"runtime"
	"sort"
	"strings"
)

// patterns for `go list -deps`, relative to the repo: the consensus engine and the anchored packages.
// Inventoried are the non-test files of EVERY package of the repo in the dependency closure of
// these (coreV2/**, tree, rlp, helpers, formula, math, hexutil, crypto, upgrades, cmd/utils, ...).
var mrPatterns = []string{"./coreV2/...", "./tree"}

// ABCI entry points for the reachability argument (function / method NAMES; the call graph is by
// name over every non-test file of the repo, hence conservative: every function or method of that
// name anywhere is taken to be called).
var mrEntry = []string{"InitChain", "BeginBlock", "DeliverTx", "EndBlock", "Commit"}

type mrSite struct {
	File, Func, Expr, MapType string
	Line                      int
	Class                     string // Coq constructor application
	Note                      string
	Shape                     string // what the recogniser saw (evidence)
	Hash                      string
	Reachable                 bool
}

// ---- reviewed side conditions ---------------------------------------------------------------------
//
// key: file:function:ranged expression.  hash: sha256 prefix of the normalised source of the loop
// (and of the sort call that follows it, for collect-then-sort).  Each entry says WHY the side
// condition of the class holds for this loop; it was written after reading the loop and the code
// that maintains the map.

type mrReview struct {
	class string // the class the review supports
	hash  string
	why   string
}

var mrReviewed = map[string]mrReview{
	// -- collect-then-sort whose sort key is a projection of the collected element: injectivity
	"coreV2/state/candidates/candidates.go:Candidates.Commit:c.pubKeyIDs": {"CollectThenSort", "7da0cb1d4e5d",
		"sort key ID: the values of pubKeyIDs are pairwise distinct - an ID enters the map either fresh (getOrNewID: maxID+1) or in ChangePubKey, which deletes the old key of that ID in the same call; deleteCandaditeFromList removes the entry"},
	"coreV2/state/candidates/candidates.go:Candidates.Commit:c.deletedCandidates": {"CollectThenSort", "b8486771a892",
		"sort key ID: one deletedID per candidate ID - a candidate (ID) is deleted once, under the single public key it holds at that moment (DeleteCandidate also puts that key on the block list, so it is never declared again - checked on the node: code 410); IDs are never re-issued (getOrNewID: maxID+1)"},
	"coreV2/state/candidates/candidates.go:Candidates.Export:c.deletedCandidates": {"CollectThenSort", "b20f145afc47",
		"sort key ID: same invariant as Candidates.Commit:c.deletedCandidates"},
	"coreV2/state/candidates/candidates.go:Candidates.getOrderedCandidates:c.list": {"CollectThenSort", "a3999200adfd",
		"sort key (total stake, ID) with ID as tie-break: c.list is keyed by ID and setToMap stores a candidate under its own ID, so ID is injective on the values"},
	"coreV2/state/candidates/candidates.go:Candidates.getOrderedCandidatesLessID:c.list": {"CollectThenSort", "19e223fce918",
		"sort key (total stake, ID) with ID as tie-break: c.list is keyed by ID and setToMap stores a candidate under its own ID, so ID is injective on the values"},
	"coreV2/state/swap/order.go:Pair.updateDirtyOrders:p.unsortedSellOrderIDs().list": {"CollectThenSort", "dea31ba1124e",
		"sort key (sortPrice, id) with id as tie-break: p.order(orderID) returns the order whose id is orderID (the map key), loading it from the immutable tree into the cache if needed - a per-entry, order-independent load"},
	"coreV2/state/swap/orderV2.go:PairV2.updateDirtyOrders:p.unsortedSellOrderIDs().list": {"CollectThenSort", "dea31ba1124e",
		"sort key (sortPrice, id) with id as tie-break: p.order(orderID) returns the order whose id is orderID (the map key), loading it from the immutable tree into the cache if needed - a per-entry, order-independent load"},
	"coreV2/state/swap/swap.go:Swap.Export:s.pairs": {"CollectThenSort", "fe2b93b3342c",
		"sort key \"coin0-coin1\" in decimal: Coin0/Coin1 of the collected pool are the two fields of the map key, the separator is not a digit, so the key is injective; pair.loadAllOrders is a per-entry read of the immutable tree; state.NextOrderID is assigned the same loop-invariant value in every iteration"},
	"coreV2/state/swap/swapV2.go:SwapV2.Export:s.pairs": {"CollectThenSort", "fe2b93b3342c",
		"sort key \"coin0-coin1\" in decimal: Coin0/Coin1 of the collected pool are the two fields of the map key, the separator is not a digit, so the key is injective; pair.loadAllOrders is a per-entry read of the immutable tree; state.NextOrderID is assigned the same loop-invariant value in every iteration"},
	"coreV2/state/swap/swap.go:Swap.getOrderedDirtyPairs:s.dirties":                {"CollectThenSort", "1de74de06b63", mrPairKeyWhy},
	"coreV2/state/swap/swap.go:Swap.getOrderedDirtyOrderPairs:s.dirtiesOrders":     {"CollectThenSort", "07c523de37f7", mrPairKeyWhy},
	"coreV2/state/swap/swapV2.go:SwapV2.getOrderedDirtyPairs:s.dirties":            {"CollectThenSort", "1de74de06b63", mrPairKeyWhy},
	"coreV2/state/swap/swapV2.go:SwapV2.getOrderedDirtyOrderPairs:s.dirtiesOrders": {"CollectThenSort", "07c523de37f7", mrPairKeyWhy},
	// -- find / exists
	"coreV2/state/candidates/candidates.go:Candidates.PubKey:c.deletedCandidates": {"ExistsOrFindUnique", "caa765932a83",
		"at most one deletedID has a given ID (invariant of Candidates.Commit:c.deletedCandidates), so the first match is the only match"},
	"coreV2/state/checker/checker.go:Checker.Check:c.deltas()": {"ExistsOrFindUnique", "1acfec4a4a7d",
		"exists-shape: the callers (State.Check <- Blockchain.Commit / InitChain) only test err != nil and panic; which violating coin is named in the message is not a consensus observable"},
	// -- per-entry independent calls
	"coreV2/state/candidates/candidates.go:Candidates.loadStakes:c.pubKeyIDs": {"CommutativeFold", "4ae185093e97",
		"LoadStakesOfCandidate(pubkey) reads the immutable tree and writes only the candidate of that pubkey (stakes, updates, stakesCount) - entries are independent; its result is summed into totalStakes (commutative)"},
}

// every `go` statement of the inventoried packages: key file:function, pinned by the hash of the statement
var mrGoReviewed = map[string]mrReview{
	"coreV2/minter/blockchain.go:Blockchain.Commit": {"Goroutine", "1597b5110d98",
		"state-sync snapshot: started after the block's state, appdb records and app hash are written; it reads the committed (immutable) tree version and the appdb records it copies before appDB.WG.Done() - every appdb writer waits on that WaitGroup - and writes only the snapshot store; validated only by the differential (replays with snapshots every 2-3 blocks)"},
	"coreV2/minter/minter.go:Blockchain.stop": {"Goroutine", "8f5e48bb6af1",
		"halt path only: stops the Tendermint node and logs; touches no state"},
	"coreV2/appdb/snapshot.go:AppDB.Snapshot": {"Goroutine", "9e230818f292",
		"chunk writer of the snapshot: streams the exported nodes of an immutable tree version; reads only"},
	"coreV2/statistics/statistics.go:Data.Statistic": {"Goroutine", "4fbc36cb8dbc",
		"prometheus metrics (block timings, peer pings): reads/writes only the statistics.Data object, never the state; three go statements in this function, hashed together"},
}

const mrPairKeyWhy = "sort key PairKey.bytes() = bytes of the SORTED pair, which identifies (a,b) with (b,a); but the dirty sets only ever hold sorted keys - the markDirty / markDirtyOrders closures are created in addPair after the key has been normalised - and on sorted keys bytes() is the concatenation of two fixed-width 4-byte coin ids, hence injective"

// names called back by code outside the repo (cosmos-sdk snapshot manager, encoding/json, fmt, sort,
// rlp through reflection): roots of the reachability analysis besides the ABCI entry points
var mrCallbacks = []string{"Snapshot", "Restore", "MarshalJSON", "UnmarshalJSON", "String", "Error", "EncodeRLP", "DecodeRLP", "Less", "Len", "Swap"}

// golden expectations of the self-test on the pinned tree: file:function:expr -> class prefix
var mrGolden = map[string]string{
	"coreV2/state/accounts/accounts.go:Accounts.getOrderedDirtyAccounts:a.dirty":         "CollectThenSort \"self",
	"coreV2/state/coins/coins.go:Coins.getOrderedDirtyCoins:c.dirty":                     "CollectThenSort \"self",
	"coreV2/state/candidates/candidates.go:Candidates.Commit:c.pubKeyIDs":                "CollectThenSort \"_.ID",
	"coreV2/state/candidates/candidates.go:Candidates.getOrderedCandidatesLessID:c.list": "CollectThenSort \"(_.GetTotalBipStake(), _.ID)",
	"coreV2/state/swap/order.go:sortOwners:owners":                                       "CollectThenSort \"_.Owner",
	"coreV2/state/swap/orderV2.go:PairV2.AddLastSwapStepWithOrders:p.orders.list":        "CommutativeFold",
	"coreV2/state/candidates/candidates.go:Candidates.PubKey:c.deletedCandidates":        "ExistsOrFindUnique",
	"coreV2/state/swap/swapV2.go:SwapV2.SwapPools:s.pairs":                               "ReadOnlyApi",
	"coreV2/transaction/multisend.go:checkBalances:total":                                "CollectThenSort \"self",
}

// ---- loading --------------------------------------------------------------------------------------

type mrListPkg struct {
	ImportPath, Export, Dir string
	GoFiles, CgoFiles       []string
	Standard, DepOnly       bool
	Error                   *struct{ Err string }
}

type mrPkg struct {
	path  string
	files []*ast.File
	info  *types.Info
	errs  []string
}

func mrLoad(fset *token.FileSet) ([]*mrPkg, error) {
	args := append([]string{"list", "-export", "-deps", "-json=ImportPath,Export,Dir,GoFiles,CgoFiles,Standard,DepOnly,Error"}, mrPatterns...)
	cmd := exec.Command("go", args...)
	cmd.Dir = repo
	var stderr bytes.Buffer
	cmd.Stderr = &stderr
	outb, err := cmd.Output()
	if err != nil {
		return nil, fmt.Errorf("go list: %v: %s", err, stderr.String())
	}
	dec := json.NewDecoder(bytes.NewReader(outb))
	var list []*mrListPkg
	exports := map[string]string{}
	for {
		var p mrListPkg
		if err := dec.Decode(&p); err == io.EOF {
			break
		} else if err != nil {
			return nil, err
		}
		list = append(list, &p)
		exports[p.ImportPath] = p.Export
	}
	imp := importer.ForCompiler(fset, "gc", func(path string) (io.ReadCloser, error) {
		e := exports[path]
		if e == "" {
			return nil, fmt.Errorf("no export data for %s", path)
		}
		return os.Open(e)
	})
	var pkgs []*mrPkg
	for _, lp := range list {
		if lp.Standard || !strings.HasPrefix(lp.Dir, strings.TrimSuffix(repo, "/")+"/") {
			continue
		}
		p := &mrPkg{path: lp.ImportPath, info: &types.Info{Types: map[ast.Expr]types.TypeAndValue{}, Uses: map[*ast.Ident]types.Object{}, Defs: map[*ast.Ident]types.Object{}}}
		if lp.Error != nil {
			p.errs = append(p.errs, lp.Error.Err)
		}
		for _, f := range append(append([]string{}, lp.GoFiles...), lp.CgoFiles...) {
			af, err := parser.ParseFile(fset, filepath.Join(lp.Dir, f), nil, 0)
			if err != nil {
				p.errs = append(p.errs, err.Error())
				continue
			}
			p.files = append(p.files, af)
		}
		// cgo packages (crypto/secp256k1): `import "C"` is faked; a range over a C-typed expression has
		// no resolved type and is emitted as Unknown
		conf := types.Config{Importer: imp, FakeImportC: len(lp.CgoFiles) > 0, Error: func(err error) { p.errs = append(p.errs, err.Error()) }}
		conf.Check(lp.ImportPath, fset, p.files, p.info)
		pkgs = append(pkgs, p)
	}
	sort.Slice(pkgs, func(i, j int) bool { return pkgs[i].path < pkgs[j].path })
	return pkgs, nil
}

// ---- name-based call graph over the whole repo ----------------------------------------------------

type mrGraph struct {
	bodies map[string][]ast.Node // function / method / func-valued field name -> bodies
	where  map[string][]string   // name -> "file:Func" of declarations
	reach  map[string]bool
	refBy  map[string][]string // name -> names of functions that mention it
}

func mrFuncName(fd *ast.FuncDecl) string {
	if fd.Recv != nil && len(fd.Recv.List) == 1 {
		t := fd.Recv.List[0].Type
		if st, ok := t.(*ast.StarExpr); ok {
			t = st.X
		}
		if ix, ok := t.(*ast.IndexExpr); ok {
			t = ix.X
		}
		if id, ok := t.(*ast.Ident); ok {
			return id.Name + "." + fd.Name.Name
		}
	}
	return fd.Name.Name
}

func mrBuildGraph() *mrGraph {
	g := &mrGraph{bodies: map[string][]ast.Node{}, where: map[string][]string{}, reach: map[string]bool{}, refBy: map[string][]string{}}
	fset := token.NewFileSet()
	filepath.Walk(repo, func(path string, fi os.FileInfo, err error) error {
		if err != nil {
			return nil
		}
		if fi.IsDir() {
			n := fi.Name()
			if path != repo && (strings.HasPrefix(n, ".") || n == "vendor" || n == "testdata") {
				return filepath.SkipDir
			}
			return nil
		}
		if !strings.HasSuffix(path, ".go") || strings.HasSuffix(path, "_test.go") {
			return nil
		}
		af, err := parser.ParseFile(fset, path, nil, 0)
		if err != nil {
			return nil
		}
		rel, _ := filepath.Rel(repo, path)
		for _, d := range af.Decls {
			if fd, ok := d.(*ast.FuncDecl); ok && fd.Body != nil {
				g.bodies[fd.Name.Name] = append(g.bodies[fd.Name.Name], fd.Body)
				g.where[fd.Name.Name] = append(g.where[fd.Name.Name], rel+":"+mrFuncName(fd))
			}
		}
		// function literals bound to a name (variable, field, composite-literal key) count as
		// declarations of that name
		ast.Inspect(af, func(n ast.Node) bool {
			switch x := n.(type) {
			case *ast.AssignStmt:
				for i, r := range x.Rhs {
					if fl, ok := r.(*ast.FuncLit); ok && i < len(x.Lhs) {
						if nm := mrLastName(x.Lhs[i]); nm != "" {
							g.bodies[nm] = append(g.bodies[nm], fl.Body)
						}
					}
				}
			case *ast.ValueSpec:
				for i, r := range x.Values {
					if fl, ok := r.(*ast.FuncLit); ok && i < len(x.Names) {
						g.bodies[x.Names[i].Name] = append(g.bodies[x.Names[i].Name], fl.Body)
					}
				}
			case *ast.KeyValueExpr:
				if fl, ok := x.Value.(*ast.FuncLit); ok {
					if nm := mrLastName(x.Key); nm != "" {
						g.bodies[nm] = append(g.bodies[nm], fl.Body)
					}
				}
			}
			return true
		})
		return nil
	})
	todo := append(append([]string{}, mrEntry...), mrCallbacks...)
	for _, e := range todo {
		g.reach[e] = true
	}
	for len(todo) > 0 {
		nm := todo[len(todo)-1]
		todo = todo[:len(todo)-1]
		for _, b := range g.bodies[nm] {
			ast.Inspect(b, func(n ast.Node) bool {
				id, ok := n.(*ast.Ident)
				if !ok {
					return true
				}
				if _, declared := g.bodies[id.Name]; declared && !g.reach[id.Name] {
					g.reach[id.Name] = true
					g.refBy[id.Name] = append(g.refBy[id.Name], nm)
					todo = append(todo, id.Name)
				}
				return true
			})
		}
	}
	return g
}

func mrLastName(e ast.Expr) string {
	switch x := e.(type) {
	case *ast.Ident:
		return x.Name
	case *ast.SelectorExpr:
		return x.Sel.Name
	}
	return ""
}

// callers lists (a few) functions of the repo that mention name — evidence for ReadOnlyApi
func (g *mrGraph) mentions(name string) []string {
	var out []string
	for fn, bodies := range g.bodies {
		for _, b := range bodies {
			found := false
			ast.Inspect(b, func(n ast.Node) bool {
				if id, ok := n.(*ast.Ident); ok && id.Name == name {
					found = true
				}
				return !found
			})
			if found {
				out = append(out, fn)
				break
			}
		}
	}
	sort.Strings(out)
	return out
}

// ---- helpers on syntax ----------------------------------------------------------------------------

func mrSrc(fset *token.FileSet, n ast.Node) string {
	var b bytes.Buffer
	printer.Fprint(&b, fset, n)
	return b.String()
}

func mrNorm(s string) string { return strings.Join(strings.Fields(s), " ") }

func mrHash(parts ...string) string {
	h := sha256.Sum256([]byte(strings.Join(parts, "\x00")))
	return fmt.Sprintf("%x", h[:6])
}

func mrIsMutexCall(s ast.Stmt) bool {
	es, ok := s.(*ast.ExprStmt)
	if !ok {
		return false
	}
	ce, ok := es.X.(*ast.CallExpr)
	if !ok || len(ce.Args) != 0 {
		return false
	}
	se, ok := ce.Fun.(*ast.SelectorExpr)
	if !ok {
		return false
	}
	switch se.Sel.Name {
	case "Lock", "Unlock", "RLock", "RUnlock":
		return true
	}
	return false
}

func mrStrip(list []ast.Stmt) []ast.Stmt {
	var out []ast.Stmt
	for _, s := range list {
		if !mrIsMutexCall(s) {
			out = append(out, s)
		}
	}
	return out
}

type mrCtx struct {
	fset *token.FileSet
	info *types.Info
	rs   *ast.RangeStmt
	key  string // name of the range key variable ("" if absent or _)
	val  string
	// statements following the range statement in its parent block
	after  []ast.Stmt
	impure []string // calls that are not known to be pure (need a review)
}

func mrIdentName(e ast.Expr) string {
	if id, ok := e.(*ast.Ident); ok && id.Name != "_" {
		return id.Name
	}
	return ""
}

// pure reports whether evaluating e has no side effect the classifier would have to reason about:
// identifiers, selectors, literals, index expressions, operators, conversions, composite literals,
// and calls of a few constructors / value methods.  Anything else is recorded in c.impure.
func (c *mrCtx) pure(e ast.Expr) bool {
	ok := true
	ast.Inspect(e, func(n ast.Node) bool {
		ce, isCall := n.(*ast.CallExpr)
		if !isCall {
			if _, fl := n.(*ast.FuncLit); fl {
				ok = false
				c.impure = append(c.impure, "func literal")
				return false
			}
			return true
		}
		if tv, has := c.info.Types[ce.Fun]; has && tv.IsType() {
			return true // conversion
		}
		name := mrSrc(c.fset, ce.Fun)
		switch {
		case name == "big.NewInt", name == "len", name == "uint64", name == "strconv.Itoa":
			return true
		}
		if se, isSel := ce.Fun.(*ast.SelectorExpr); isSel {
			switch se.Sel.Name {
			case "String", "Bytes", "Cmp", "Sign", "clone", "Compare":
				return true
			case "Set":
				// big.NewInt(0).Set(x): a fresh copy
				if inner, isC := se.X.(*ast.CallExpr); isC && mrSrc(c.fset, inner.Fun) == "big.NewInt" {
					return true
				}
			}
		}
		ok = false
		c.impure = append(c.impure, name)
		return true
	})
	return ok
}

func (c *mrCtx) mentions(n ast.Node, src string) bool {
	found := false
	ast.Inspect(n, func(x ast.Node) bool {
		if found {
			return false
		}
		if e, ok := x.(ast.Expr); ok {
			switch e.(type) {
			case *ast.Ident, *ast.SelectorExpr:
				if mrSrc(c.fset, e) == src {
					found = true
				}
			}
		}
		return true
	})
	return found
}

// ---- shape A: collect then sort -------------------------------------------------------------------

// appendTarget recognises  S = append(S, E)
func (c *mrCtx) appendStmt(s ast.Stmt) (target string, elem ast.Expr, ok bool) {
	as, isA := s.(*ast.AssignStmt)
	if !isA || as.Tok != token.ASSIGN || len(as.Lhs) != 1 || len(as.Rhs) != 1 {
		return
	}
	ce, isC := as.Rhs[0].(*ast.CallExpr)
	if !isC || len(ce.Args) != 2 || ce.Ellipsis != token.NoPos {
		return
	}
	if id, isI := ce.Fun.(*ast.Ident); !isI || id.Name != "append" {
		return
	}
	l, a0 := mrSrc(c.fset, as.Lhs[0]), mrSrc(c.fset, ce.Args[0])
	if l != a0 {
		return
	}
	return l, ce.Args[1], true
}

// substIdx prints e with every occurrence of  S[idx]  (and of identifiers bound to S[idx] through
// alias) replaced by "_"; returns "" when e mentions the other index variable in any other way.
func (c *mrCtx) proj(e ast.Expr, S, idx, other string, alias map[string]string) string {
	bad := false
	var pr func(e ast.Expr) string
	pr = func(e ast.Expr) string {
		switch x := e.(type) {
		case *ast.IndexExpr:
			if mrSrc(c.fset, x.X) == S {
				if id, ok := x.Index.(*ast.Ident); ok && id.Name == idx {
					return "_"
				}
				bad = true
				return "?"
			}
			return pr(x.X) + "[" + pr(x.Index) + "]"
		case *ast.Ident:
			if a, ok := alias[x.Name]; ok {
				if a == idx {
					return "_"
				}
				bad = true
				return "?"
			}
			if x.Name == idx || x.Name == other {
				bad = true
			}
			return x.Name
		case *ast.SelectorExpr:
			return pr(x.X) + "." + x.Sel.Name
		case *ast.CallExpr:
			var as []string
			for _, a := range x.Args {
				as = append(as, pr(a))
			}
			return pr(x.Fun) + "(" + strings.Join(as, ", ") + ")"
		case *ast.BinaryExpr:
			return pr(x.X) + " " + x.Op.String() + " " + pr(x.Y)
		case *ast.BasicLit:
			return x.Value
		case *ast.ParenExpr:
			return "(" + pr(x.X) + ")"
		}
		bad = true
		return "?"
	}
	s := pr(e)
	if bad {
		return ""
	}
	return s
}

// cmpKey recognises a comparison of  P(S[i])  with  P(S[j])  for one projection P and returns P
// (with "_" for the element), for the forms
//
//	A < B | A > B            bytes.Compare(A, B) == ±1            A.Cmp(B) == ±1 | A.Compare(B) == ±1
func (c *mrCtx) cmpKey(e ast.Expr, S, i, j string, alias map[string]string, locals map[string]ast.Expr) (string, bool) {
	if id, ok := e.(*ast.Ident); ok {
		if d, has := locals[id.Name]; has {
			e = d
		}
	}
	be, ok := e.(*ast.BinaryExpr)
	if !ok {
		return "", false
	}
	same := func(a, b ast.Expr) (string, bool) {
		pa, pb := c.proj(a, S, i, j, alias), c.proj(b, S, j, i, alias)
		if pa == "" || pb == "" {
			// the comparison may be written with the indexes swapped
			pa, pb = c.proj(a, S, j, i, alias), c.proj(b, S, i, j, alias)
		}
		if pa == "" || pa != pb {
			return "", false
		}
		return pa, true
	}
	switch be.Op {
	case token.LSS, token.GTR:
		return same(be.X, be.Y)
	case token.EQL:
		lit := mrSrc(c.fset, be.Y)
		if lit != "1" && lit != "-1" {
			return "", false
		}
		x := be.X
		if id, ok := x.(*ast.Ident); ok {
			if d, has := locals[id.Name]; has {
				x = d
			}
		}
		ce, ok := x.(*ast.CallExpr)
		if !ok {
			return "", false
		}
		if mrSrc(c.fset, ce.Fun) == "bytes.Compare" && len(ce.Args) == 2 {
			return same(ce.Args[0], ce.Args[1])
		}
		if se, ok := ce.Fun.(*ast.SelectorExpr); ok && (se.Sel.Name == "Cmp" || se.Sel.Name == "Compare") && len(ce.Args) == 1 {
			return same(se.X, ce.Args[0])
		}
	}
	return "", false
}

// lessKey analyses the `less` function literal of a sort call over S and returns the sort key as
// (primary, tiebreak) projections; tiebreak == "" when the comparison has a single level.
func (c *mrCtx) lessKey(fl *ast.FuncLit, S string) (primary, tie string, ok bool) {
	if fl.Type.Params == nil {
		return
	}
	var ps []string
	for _, f := range fl.Type.Params.List {
		for _, n := range f.Names {
			ps = append(ps, n.Name)
		}
	}
	if len(ps) != 2 {
		return
	}
	i, j := ps[0], ps[1]
	alias := map[string]string{}
	locals := map[string]ast.Expr{}
	body := fl.Body.List
	// leading definitions:  a := S[j]  /  cmp := <expr>
	for len(body) > 1 {
		as, isA := body[0].(*ast.AssignStmt)
		if !isA || as.Tok != token.DEFINE || len(as.Lhs) != 1 || len(as.Rhs) != 1 {
			break
		}
		name := mrIdentName(as.Lhs[0])
		if ix, isIx := as.Rhs[0].(*ast.IndexExpr); isIx && mrSrc(c.fset, ix.X) == S {
			if id, isId := ix.Index.(*ast.Ident); isId && (id.Name == i || id.Name == j) {
				alias[name] = id.Name
				body = body[1:]
				continue
			}
		}
		locals[name] = as.Rhs[0]
		body = body[1:]
	}
	switch len(body) {
	case 1:
		switch st := body[0].(type) {
		case *ast.ReturnStmt:
			if len(st.Results) != 1 {
				return
			}
			p, good := c.cmpKey(st.Results[0], S, i, j, alias, locals)
			return p, "", good
		case *ast.SwitchStmt:
			// switch A.Cmp(B) { case <dir>: return true; case 0: return X < Y; default: return false }
			if st.Init != nil || st.Tag == nil || len(st.Body.List) != 3 {
				return
			}
			tag, isC := st.Tag.(*ast.CallExpr)
			if !isC || len(tag.Args) != 1 {
				return
			}
			se, isS := tag.Fun.(*ast.SelectorExpr)
			if !isS || se.Sel.Name != "Cmp" {
				return
			}
			pa, pb := c.proj(se.X, S, i, j, alias), c.proj(tag.Args[0], S, j, i, alias)
			if pa == "" || pb == "" {
				pa, pb = c.proj(se.X, S, j, i, alias), c.proj(tag.Args[0], S, i, j, alias)
			}
			if pa == "" || pa != pb {
				return
			}
			var tieP string
			seenTrue, seenDefault := false, false
			for _, cl := range st.Body.List {
				cc := cl.(*ast.CaseClause)
				if len(cc.Body) != 1 {
					return
				}
				rt, isR := cc.Body[0].(*ast.ReturnStmt)
				if !isR || len(rt.Results) != 1 {
					return
				}
				switch {
				case cc.List == nil:
					if mrSrc(c.fset, rt.Results[0]) != "false" {
						return
					}
					seenDefault = true
				case len(cc.List) == 1 && mrSrc(c.fset, cc.List[0]) == "0":
					t, good := c.cmpKey(rt.Results[0], S, i, j, alias, locals)
					if !good {
						return
					}
					tieP = t
				case len(cc.List) == 1:
					if mrSrc(c.fset, rt.Results[0]) != "true" {
						return
					}
					seenTrue = true
				default:
					return
				}
			}
			if !seenTrue || !seenDefault || tieP == "" {
				return
			}
			return pa, tieP, true
		}
	case 2:
		// cmp := A.Cmp(B)   (in locals)
		// if cmp == 0 { return X < Y }
		// return cmp == ±1
		is, isIf := body[0].(*ast.IfStmt)
		rt, isR := body[1].(*ast.ReturnStmt)
		if !isIf || !isR || is.Init != nil || is.Else != nil || len(is.Body.List) != 1 || len(rt.Results) != 1 {
			return
		}
		cond, isB := is.Cond.(*ast.BinaryExpr)
		if !isB || cond.Op != token.EQL || mrSrc(c.fset, cond.Y) != "0" {
			return
		}
		cv := mrIdentName(cond.X)
		if _, has := locals[cv]; !has {
			return
		}
		inner, isR2 := is.Body.List[0].(*ast.ReturnStmt)
		if !isR2 || len(inner.Results) != 1 {
			return
		}
		t, good := c.cmpKey(inner.Results[0], S, i, j, alias, locals)
		if !good {
			return
		}
		fin, isB2 := rt.Results[0].(*ast.BinaryExpr)
		if !isB2 || fin.Op != token.EQL || mrIdentName(fin.X) != cv {
			return
		}
		p, good := c.cmpKey(rt.Results[0], S, i, j, alias, locals)
		if !good {
			return
		}
		return p, t, true
	}
	return
}

// collectThenSort returns (sort key description, injective-by-syntax, ok)
func (c *mrCtx) collectThenSort() (key string, syntactic bool, sortSrc string, ok bool) {
	body := mrStrip(c.rs.Body.List)
	if len(body) == 0 {
		return
	}
	// the statement that appends; everything else must be a definition, an `if x == nil { continue }`,
	// or (reviewed) a loop-invariant assignment
	var S string
	var elem ast.Expr
	nAppend := 0
	for _, s := range body {
		if t, e, isApp := c.appendStmt(s); isApp {
			S, elem = t, e
			nAppend++
			continue
		}
		switch x := s.(type) {
		case *ast.AssignStmt:
			for _, r := range x.Rhs {
				c.pure(r)
			}
			if x.Tok != token.DEFINE {
				c.impure = append(c.impure, "assignment to "+mrSrc(c.fset, x.Lhs[0]))
			}
		case *ast.DeclStmt:
		case *ast.IfStmt:
			// if v == nil { continue }
			if x.Init != nil || x.Else != nil || !c.pure(x.Cond) || len(x.Body.List) != 1 {
				return
			}
			if br, isBr := x.Body.List[0].(*ast.BranchStmt); !isBr || br.Tok != token.CONTINUE {
				return
			}
		case *ast.RangeStmt:
			// a nested loop that only builds a local value (reviewed through the hash)
			c.impure = append(c.impure, "nested loop")
		default:
			return
		}
	}
	if nAppend != 1 {
		return
	}
	c.pure(elem)
	// the first later statement of the parent block that mentions S must be the sort call
	var call *ast.CallExpr
	for _, s := range c.after {
		if mrIsMutexCall(s) || !c.mentions(s, S) {
			continue
		}
		es, isE := s.(*ast.ExprStmt)
		if !isE {
			return
		}
		ce, isC := es.X.(*ast.CallExpr)
		if !isC {
			return
		}
		call = ce
		break
	}
	if call == nil || len(call.Args) != 2 || mrSrc(c.fset, call.Args[0]) != S {
		return
	}
	switch mrSrc(c.fset, call.Fun) {
	case "sort.Slice", "sort.SliceStable":
	default:
		return
	}
	fl, isF := call.Args[1].(*ast.FuncLit)
	if !isF {
		return
	}
	p, t, good := c.lessKey(fl, S)
	if !good {
		return
	}
	sortSrc = mrNorm(mrSrc(c.fset, call))
	// is the key the whole element?
	self := false
	var elemT types.Type
	if tv, has := c.info.Types[elem]; has {
		elemT = tv.Type
	}
	isByteArray := func(t types.Type) bool {
		if t == nil {
			return false
		}
		a, isA := t.Underlying().(*types.Array)
		if !isA {
			return false
		}
		b, isB := a.Elem().Underlying().(*types.Basic)
		return isB && b.Kind() == types.Uint8
	}
	isBasic := func(t types.Type) bool {
		if t == nil {
			return false
		}
		_, isB := t.Underlying().(*types.Basic)
		return isB
	}
	switch {
	case t == "" && p == "_" && (isBasic(elemT) || (elemT != nil && elemT.String() == "*math/big.Int")):
		self = true // ordered basic type compared with < / >, or big.Int compared by value with Cmp
	case t == "" && p == "_.Bytes()" && isByteArray(elemT):
		self = true
	}
	if self {
		return "self", true, sortSrc, true
	}
	// a projection: injective by syntax when the element is a composite literal whose
	// discriminating field is initialised with the range key (map keys are pairwise distinct)
	disc := p
	key = p
	if t != "" {
		disc = t
		key = "(" + p + ", " + t + ")"
	}
	if c.key != "" && strings.HasPrefix(disc, "_.") && !strings.ContainsAny(disc[2:], ".()") {
		field := disc[2:]
		lit := elem
		if u, isU := lit.(*ast.UnaryExpr); isU && u.Op == token.AND {
			lit = u.X
		}
		if cl, isCL := lit.(*ast.CompositeLit); isCL {
			for _, el := range cl.Elts {
				if kv, isKV := el.(*ast.KeyValueExpr); isKV && mrIdentName(kv.Key) == field && mrIdentName(kv.Value) == c.key {
					return key + " = the map key", true, sortSrc, true
				}
			}
		}
	}
	return key, false, sortSrc, true
}

// ---- shape B: commutative fold --------------------------------------------------------------------

func (c *mrCtx) commutativeStmts(list []ast.Stmt, ranged string) bool {
	for _, s := range mrStrip(list) {
		switch x := s.(type) {
		case *ast.BranchStmt:
			if x.Tok != token.CONTINUE {
				return false
			}
		case *ast.IncDecStmt:
			if mrIdentName(x.X) == "" {
				return false
			}
		case *ast.IfStmt:
			if x.Init != nil || !c.pure(x.Cond) || !c.commutativeStmts(x.Body.List, ranged) {
				return false
			}
			if x.Else != nil {
				eb, isB := x.Else.(*ast.BlockStmt)
				if !isB || !c.commutativeStmts(eb.List, ranged) {
					return false
				}
			}
		case *ast.AssignStmt:
			if len(x.Lhs) != 1 || len(x.Rhs) != 1 {
				return false
			}
			switch x.Tok {
			case token.ADD_ASSIGN, token.SUB_ASSIGN:
				if mrIdentName(x.Lhs[0]) == "" || !c.pure(x.Rhs[0]) {
					return false
				}
			case token.ASSIGN:
				// M[k] = e   (k the range key: distinct per iteration)   or   M[x] = <constant>
				ix, isIx := x.Lhs[0].(*ast.IndexExpr)
				if !isIx || mrSrc(c.fset, ix.X) == ranged {
					return false
				}
				if tv, has := c.info.Types[ix.X]; !has || tv.Type == nil {
					return false
				} else if _, isMap := tv.Type.Underlying().(*types.Map); !isMap {
					return false
				}
				rhs := mrSrc(c.fset, x.Rhs[0])
				constant := rhs == "struct{}{}" || rhs == "true" || rhs == "nil"
				if !(c.key != "" && mrIdentName(ix.Index) == c.key) && !constant {
					return false
				}
				if !c.pure(ix.Index) || !c.pure(x.Rhs[0]) {
					return false
				}
			default:
				return false
			}
		case *ast.ExprStmt:
			ce, isC := x.X.(*ast.CallExpr)
			if !isC {
				return false
			}
			if id, isI := ce.Fun.(*ast.Ident); isI && id.Name == "delete" && len(ce.Args) == 2 {
				if !c.pure(ce.Args[1]) {
					return false
				}
				continue
			}
			// X.Add(X, e) / X.Sub(X, e) on a big.Int accumulator that is not the ranged entry
			se, isS := ce.Fun.(*ast.SelectorExpr)
			if !isS || (se.Sel.Name != "Add" && se.Sel.Name != "Sub") || len(ce.Args) != 2 {
				return false
			}
			acc := mrSrc(c.fset, se.X)
			if acc != mrSrc(c.fset, ce.Args[0]) {
				return false
			}
			if tv, has := c.info.Types[se.X]; !has || tv.Type.String() != "*math/big.Int" {
				return false
			}
			c.pure(ce.Args[1]) // an impure summand needs a review (recorded in c.impure)
		default:
			return false
		}
	}
	return true
}

// ---- shape C: find / exists -----------------------------------------------------------------------

// findShape: only loop-local variables are written; some `if` returns or breaks.
func (c *mrCtx) findShape() bool {
	locals := map[string]bool{}
	exits := 0
	var walk func(list []ast.Stmt, top bool) bool
	walk = func(list []ast.Stmt, top bool) bool {
		for _, s := range mrStrip(list) {
			switch x := s.(type) {
			case *ast.AssignStmt:
				for _, l := range x.Lhs {
					n := mrIdentName(l)
					if n == "" {
						return false
					}
					if x.Tok == token.DEFINE {
						locals[n] = true
					} else if !locals[n] {
						return false
					}
				}
				for _, r := range x.Rhs {
					if !c.pure(r) {
						return false
					}
				}
			case *ast.IfStmt:
				if x.Init != nil || x.Else != nil || !c.pure(x.Cond) {
					return false
				}
				if !walk(x.Body.List, false) {
					return false
				}
			case *ast.ReturnStmt:
				if top {
					return false
				}
				exits++
			case *ast.BranchStmt:
				if x.Tok == token.BREAK && !top {
					exits++
				} else if x.Tok != token.CONTINUE {
					return false
				}
			default:
				return false
			}
		}
		return true
	}
	return walk(c.rs.Body.List, true) && exits > 0
}

// ---- shape D: per-entry calls ---------------------------------------------------------------------

// perEntryShape: every statement is a call that mentions the range key or value (a method of the
// ranged value, or a method given the key), nothing else.
func (c *mrCtx) perEntryShape() bool {
	body := mrStrip(c.rs.Body.List)
	if len(body) == 0 {
		return false
	}
	for _, s := range body {
		es, isE := s.(*ast.ExprStmt)
		if !isE {
			return false
		}
		ce, isC := es.X.(*ast.CallExpr)
		if !isC {
			return false
		}
		uses := false
		ast.Inspect(ce, func(n ast.Node) bool {
			if id, ok := n.(*ast.Ident); ok && (id.Name == c.key || id.Name == c.val) && id.Name != "" {
				uses = true
			}
			return true
		})
		if !uses {
			return false
		}
	}
	return true
}

// ---- the inventory --------------------------------------------------------------------------------

var mrPackages []string // packages inventoried by the last mrInventory
var mrGoSites []*mrSite // go statements found by the last mrInventory

func mrInventory() (sites []*mrSite, problems []string, graph *mrGraph) {
	fset := token.NewFileSet()
	pkgs, err := mrLoad(fset)
	if err != nil {
		return nil, []string{"LOAD: " + err.Error()}, nil
	}
	mrPackages, mrGoSites = nil, nil
	for _, p := range pkgs {
		mrPackages = append(mrPackages, strings.TrimPrefix(p.path, "github.com/MinterTeam/minter-go-node/"))
	}
	if len(pkgs) < 30 {
		problems = append(problems, fmt.Sprintf("LOAD: only %d packages of the repo found", len(pkgs)))
	}
	graph = mrBuildGraph()
	for _, p := range pkgs {
		for _, e := range p.errs {
			problems = append(problems, "TYPECHECK "+p.path+": "+e)
		}
		for _, af := range p.files {
			rel, _ := filepath.Rel(repo, fset.Position(af.Pos()).Filename)
			// other ways of iterating a map: fail closed
			ast.Inspect(af, func(n ast.Node) bool {
				ce, ok := n.(*ast.CallExpr)
				if !ok {
					return true
				}
				se, ok := ce.Fun.(*ast.SelectorExpr)
				if !ok {
					return true
				}
				full := mrSrc(fset, se)
				switch {
				case strings.HasPrefix(full, "maps."), se.Sel.Name == "MapKeys", se.Sel.Name == "MapRange":
					problems = append(problems, fmt.Sprintf("OTHER-MAP-ITERATION %s:%d %s", rel, fset.Position(ce.Pos()).Line, full))
				case se.Sel.Name == "Range":
					if tv, has := p.info.Types[se.X]; has && strings.Contains(tv.Type.String(), "sync.Map") {
						problems = append(problems, fmt.Sprintf("SYNC-MAP-RANGE %s:%d %s", rel, fset.Position(ce.Pos()).Line, full))
					}
				}
				return true
			})
			for _, d := range af.Decls {
				fd, ok := d.(*ast.FuncDecl)
				if !ok || fd.Body == nil {
					// a range inside a package-level initialiser: fail closed below
					ast.Inspect(d, func(n ast.Node) bool {
						if rs, isR := n.(*ast.RangeStmt); isR {
							if tv, has := p.info.Types[rs.X]; !has || mrIsMap(tv.Type) {
								problems = append(problems, fmt.Sprintf("RANGE-OUTSIDE-FUNCTION %s:%d", rel, fset.Position(rs.Pos()).Line))
							}
						}
						return true
					})
					continue
				}
				fname := mrFuncName(fd)
				// go statements of the function (all of them hashed together)
				var goSrc []string
				goLine := 0
				ast.Inspect(fd.Body, func(n ast.Node) bool {
					if gs, isG := n.(*ast.GoStmt); isG {
						goSrc = append(goSrc, mrNorm(mrSrc(fset, gs)))
						if goLine == 0 {
							goLine = fset.Position(gs.Pos()).Line
						}
					}
					return true
				})
				if len(goSrc) > 0 {
					gst := &mrSite{File: rel, Line: goLine, Func: fname, Expr: fmt.Sprintf("%d go statement(s)", len(goSrc)), MapType: "goroutine", Hash: mrHash(goSrc...), Reachable: true}
					rev, ok := mrGoReviewed[rel+":"+fname]
					switch {
					case !ok:
						gst.Class, gst.Note = "Unknown", "goroutine started here has not been reviewed"
					case rev.hash != gst.Hash:
						gst.Class, gst.Note = "Unknown", "the go statement(s) changed since the review (hash "+gst.Hash+", reviewed "+rev.hash+")"
					default:
						gst.Class, gst.Note = "Goroutine "+mrCoqStr(rev.why), rev.why
					}
					mrGoSites = append(mrGoSites, gst)
				}
				// walk with parent blocks
				var walkBlock func(list []ast.Stmt)
				var walkNode func(n ast.Node)
				walkNode = func(n ast.Node) {
					ast.Inspect(n, func(x ast.Node) bool {
						switch b := x.(type) {
						case *ast.BlockStmt:
							walkBlock(b.List)
							return false
						case *ast.CaseClause:
							walkBlock(b.Body)
							return false
						case *ast.CommClause:
							walkBlock(b.Body)
							return false
						}
						return true
					})
				}
				walkBlock = func(list []ast.Stmt) {
					for i, s := range list {
						if ls, isL := s.(*ast.LabeledStmt); isL {
							s = ls.Stmt
						}
						if rs, isR := s.(*ast.RangeStmt); isR {
							tv, has := p.info.Types[rs.X]
							if !has || tv.Type == nil {
								sites = append(sites, &mrSite{File: rel, Line: fset.Position(rs.Pos()).Line, Func: fname, Expr: mrNorm(mrSrc(fset, rs.X)),
									MapType: "?", Class: "Unknown", Note: "the type of the ranged expression could not be resolved", Reachable: true})
							} else if mrIsMap(tv.Type) {
								st := &mrSite{File: rel, Line: fset.Position(rs.Pos()).Line, Func: fname, Expr: mrNorm(mrSrc(fset, rs.X)),
									MapType: types.TypeString(tv.Type, func(pk *types.Package) string { return pk.Name() })}
								c := &mrCtx{fset: fset, info: p.info, rs: rs, key: mrIdentName(rs.Key), val: mrIdentName(rs.Value), after: list[i+1:]}
								if rs.Key == nil {
									c.key = ""
								}
								if rs.Value == nil {
									c.val = ""
								}
								st.Reachable = graph.reach[fd.Name.Name]
								mrClassify(c, st, graph, fd.Name.Name)
								sites = append(sites, st)
							}
						}
						walkNode(s)
					}
				}
				walkBlock(fd.Body.List)
			}
		}
	}
	sort.Slice(sites, func(i, j int) bool {
		if sites[i].File != sites[j].File {
			return sites[i].File < sites[j].File
		}
		return sites[i].Line < sites[j].Line
	})
	return
}

func mrIsMap(t types.Type) bool {
	if t == nil {
		return false
	}
	_, ok := t.Underlying().(*types.Map)
	return ok
}

func mrClassify(c *mrCtx, st *mrSite, g *mrGraph, bareName string) {
	id := st.File + ":" + st.Func + ":" + st.Expr
	loopSrc := mrNorm(mrSrc(c.fset, c.rs))
	rev, reviewed := mrReviewed[id]
	check := func(class string, extra ...string) (string, bool) {
		// a reviewed side condition holds only for exactly the reviewed source
		st.Hash = mrHash(append([]string{loopSrc}, extra...)...)
		if !reviewed {
			return "no reviewed side condition for this loop", false
		}
		if rev.class != class {
			return "reviewed as " + rev.class + " but the shape is " + class, false
		}
		if rev.hash != st.Hash {
			return "the loop changed since its side condition was reviewed (hash " + st.Hash + ", reviewed " + rev.hash + ")", false
		}
		return rev.why, true
	}
	// a loop body that writes the IAVL tree directly does so in map iteration order.  The key/value
	// CONTENT of the tree does not depend on that order (Proofs/DetermFacts.v per_entry_independent) but
	// its root hash does: an AVL tree's shape depends on the insertion order (observed with the
	// differential: same exports, different app hashes).  No review can make such a loop acceptable.
	treeWrite := ""
	ast.Inspect(c.rs.Body, func(n ast.Node) bool {
		ce, ok := n.(*ast.CallExpr)
		if !ok {
			return true
		}
		se, ok := ce.Fun.(*ast.SelectorExpr)
		if !ok || (se.Sel.Name != "Set" && se.Sel.Name != "Remove") {
			return true
		}
		if tv, has := c.info.Types[se.X]; has && tv.Type != nil {
			ts := tv.Type.String()
			if strings.Contains(ts, "iavl.") || strings.Contains(ts, "tree.MTree") || strings.Contains(ts, "tree.ReadOnlyTree") {
				treeWrite = mrNorm(mrSrc(c.fset, ce.Fun))
			}
		}
		return true
	})
	if treeWrite != "" {
		st.Hash = mrHash(loopSrc)
		st.Shape = "calls " + treeWrite + " inside the loop"
		st.Note = "the loop body calls " + treeWrite + " in map iteration order; the IAVL root hash depends on the order of insertions"
		st.Class = "OrderDependent " + mrCoqStr(st.Note)
		return
	}
	// A
	if key, syntactic, sortSrc, ok := c.collectThenSort(); ok {
		st.Shape = "append to a slice; next use of the slice is " + strings.SplitN(sortSrc, "(", 2)[0] + "; sort key " + key
		if syntactic && len(c.impure) == 0 {
			st.Class = "CollectThenSort " + mrCoqStr(key)
			st.Note = "injective by syntax: " + map[bool]string{true: "the whole collected element is compared (equal keys = equal elements)", false: "the compared field is the map key"}[key == "self"]
			st.Hash = mrHash(loopSrc, sortSrc)
			return
		}
		why, good := check("CollectThenSort", sortSrc)
		if good {
			st.Class = "CollectThenSort " + mrCoqStr(key)
			st.Note = why
			return
		}
		st.Note = "collect-then-sort with key " + key + " (impure: " + strings.Join(c.impure, ",") + "): " + why
	} else if c.impure = nil; c.commutativeStmts(c.rs.Body.List, st.Expr) {
		st.Shape = "only += / big.Int Add,Sub into an accumulator, stores under the range key (or of a constant) into another map, delete, continue"
		if len(c.impure) == 0 {
			st.Class = "CommutativeFold"
			st.Note = "by syntax"
			st.Hash = mrHash(loopSrc)
			return
		}
		why, good := check("CommutativeFold")
		if good {
			st.Class = "CommutativeFold"
			st.Note = why
			return
		}
		st.Note = "fold with calls " + strings.Join(c.impure, ",") + ": " + why
	} else if c.impure = nil; c.findShape() {
		st.Shape = "writes only loop-local variables; returns / breaks under a condition"
		why, good := check("ExistsOrFindUnique")
		if good {
			st.Class = "ExistsOrFindUnique " + mrCoqStr(why)
			st.Note = why
			return
		}
		st.Note = "find shape: " + why
	} else if c.perEntryShape() {
		st.Shape = "only calls that take the range key / value"
		why, good := check("PerEntryIndependent")
		if good {
			st.Class = "PerEntryIndependent " + mrCoqStr(why)
			st.Note = why
			return
		}
		st.Note = "per-entry shape: " + why
	} else {
		st.Hash = mrHash(loopSrc)
		st.Note = "unrecognised loop shape"
	}
	// not order independent by shape: acceptable only outside the consensus path
	if !st.Reachable {
		st.Class = "ReadOnlyApi"
		ms := g.mentions(bareName)
		if len(ms) > 6 {
			ms = append(ms[:6], "...")
		}
		st.Note = "function name " + bareName + " is not reachable in the name-based call graph from " + strings.Join(mrEntry, "/") + "; mentioned by: " + strings.Join(ms, ",") + " [" + st.Note + "]"
		return
	}
	st.Class = "Unknown"
}

func mrCoqStr(s string) string { return "\"" + strings.ReplaceAll(s, "\"", "\"\"") + "\"" }

// mrDigest hashes every input of the inventory: all non-test .go files of the repo, go.mod, go.sum,
// this translator's executable and the Go version.  The (10 s) analysis is skipped when the
// MapRanges.v already in the output directory was generated from exactly these inputs.
func mrDigest() string {
	h := sha256.New()
	add := func(path string) {
		b, err := os.ReadFile(path)
		if err != nil {
			fmt.Fprintf(h, "!%s:%v\n", path, err)
			return
		}
		fmt.Fprintf(h, "%s:%d\n", path, len(b))
		h.Write(b)
	}
	var files []string
	filepath.Walk(repo, func(path string, fi os.FileInfo, err error) error {
		if err != nil {
			return nil
		}
		if fi.IsDir() {
			n := fi.Name()
			if path != repo && (strings.HasPrefix(n, ".") || n == "vendor" || n == "testdata") {
				return filepath.SkipDir
			}
			return nil
		}
		if strings.HasSuffix(path, ".go") && !strings.HasSuffix(path, "_test.go") {
			files = append(files, path)
		}
		return nil
	})
	sort.Strings(files)
	for _, f := range files {
		add(f)
	}
	add(filepath.Join(repo, "go.mod"))
	add(filepath.Join(repo, "go.sum"))
	if exe, err := os.Executable(); err == nil {
		add(exe)
	}
	fmt.Fprintln(h, runtime.Version())
	return fmt.Sprintf("%x", h.Sum(nil)[:16])
}

func init() { generators["MapRanges.v"] = genMapRanges }

func genMapRanges() string {
	digest := mrDigest()
	head := "(* GENERATED by harness/cmd/xlate (mapranges.go) from /repo on every run — do not edit; inputs " + digest + " *)\n"
	if outDir != "" {
		// reuse only an untouched previous output: line 2 carries the hash of everything after it
		if old, err := os.ReadFile(filepath.Join(outDir, "MapRanges.v")); err == nil && strings.HasPrefix(string(old), head) {
			rest := string(old)[len(head):]
			if i := strings.Index(rest, "\n"); i > 0 && rest[:i] == "(* body "+mrHash(rest[i+1:])+" *)" {
				return string(old)
			}
		}
	}
	sites, problems, graph := mrInventory()
	var sb strings.Builder
	sb.WriteString("From Coq Require Import ZArith List String.\nFrom Minter Require Import Determ.\nImport ListNotations.\nOpen Scope Z_scope.\nOpen Scope string_scope.\n\n")
	if graph != nil {
		n := 0
		for range graph.reach {
			n++
		}
		fmt.Fprintf(&sb, "(* name-based call graph: %d function names reachable from %s *)\n", n, strings.Join(mrEntry, ", "))
	}
	fmt.Fprintf(&sb, "(* %d packages inventoried: %s *)\n", len(mrPackages), strings.Join(mrPackages, " "))
	for _, p := range problems {
		fmt.Fprintf(&sb, "(* PROBLEM %s *)\n", strings.ReplaceAll(strings.ReplaceAll(p, "(*", "( *"), "*)", "* )"))
	}
	sb.WriteString("Definition map_ranges : list site := [\n")
	var rows []string
	for _, s := range sites {
		rows = append(rows, fmt.Sprintf("  (* %s | %s | hash %s *)\n  mk_site %s %d %s %s (%s) %s", strings.ReplaceAll(s.MapType, "*", "^"), strings.ReplaceAll(s.Shape, "*", "^"), s.Hash,
			mrCoqStr(s.File), s.Line, mrCoqStr(s.Func), mrCoqStr(s.Expr), s.Class, mrCoqStr(s.Note)))
	}
	for _, p := range problems {
		rows = append(rows, fmt.Sprintf("  mk_site \"\" 0 \"\" \"\" (Unknown) %s", mrCoqStr(p)))
	}
	sb.WriteString(strings.Join(rows, ";\n"))
	sb.WriteString("\n].\n\n")
	fmt.Fprintf(&sb, "Definition map_ranges_count : Z := %d.\n\n", len(sites))
	sb.WriteString("(* every `go` statement in the same packages (one entry per function) *)\nDefinition go_statements : list site := [\n")
	rows = nil
	for _, s := range mrGoSites {
		rows = append(rows, fmt.Sprintf("  (* hash %s *)\n  mk_site %s %d %s %s (%s) %s", s.Hash, mrCoqStr(s.File), s.Line, mrCoqStr(s.Func), mrCoqStr(s.Expr), s.Class, mrCoqStr(s.Note)))
	}
	sb.WriteString(strings.Join(rows, ";\n"))
	sb.WriteString("\n].\n")
	return head + "(* body " + mrHash(sb.String()) + " *)\n" + sb.String()
}

// mrSelfTest prints the inventory summary and compares a handful of named sites of the pinned tree
// with their golden classes.  Returns false on any mismatch.
func mrSelfTest(w io.Writer) bool {
	sites, problems, _ := mrInventory()
	count := map[string]int{}
	byID := map[string]*mrSite{}
	for _, s := range sites {
		count[strings.SplitN(s.Class, " ", 2)[0]]++
		byID[s.File+":"+s.Func+":"+s.Expr] = s
	}
	var ks []string
	for k := range count {
		ks = append(ks, k)
	}
	sort.Strings(ks)
	fmt.Fprintf(w, "mapranges: %d packages, %d sites;", len(mrPackages), len(sites))
	for _, k := range ks {
		fmt.Fprintf(w, " %s=%d", k, count[k])
	}
	fmt.Fprintln(w)
	ok := len(problems) == 0
	for _, p := range problems {
		fmt.Fprintln(w, "PROBLEM", p)
	}
	for _, g := range mrGoSites {
		fmt.Fprintf(w, "go statements %s:%s (%s) => %s\n", g.File, g.Func, g.Expr, strings.SplitN(g.Class, " ", 2)[0])
		if g.Class == "Unknown" {
			ok = false
		}
	}
	var gs []string
	for k := range mrGolden {
		gs = append(gs, k)
	}
	sort.Strings(gs)
	for _, k := range gs {
		s := byID[k]
		got := "<site not found>"
		if s != nil {
			got = s.Class
		}
		verdict := "ok"
		if !strings.HasPrefix(got, mrGolden[k]) {
			verdict = "MISMATCH (golden: " + mrGolden[k] + ")"
			ok = false
		}
		fmt.Fprintf(w, "golden %s => %s : %s\n", k, got, verdict)
	}
	if ok {
		fmt.Fprintln(w, "SELFTEST OK")
	} else {
		fmt.Fprintln(w, "SELFTEST FAILED")
	}
	return ok
}
