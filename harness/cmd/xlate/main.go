// xlate — deliberately dumb translators from /repo's Go source to Coq (go/ast only).
// Each recognises a small set of syntactic shapes and fails closed: an unrecognised
// shape is emitted as a Coq definition that does not type-check against its users
// (Definition x : Z := UNKNOWN_SHAPE), so the proof gate breaks.
package main

import (
	"fmt"
	"go/ast"
	"go/constant"
	"go/parser"
	"go/token"
	"math/big"
	"os"
	"path/filepath"
	"sort"
	"strings"
)

var repo = "/repo"
var outDir string

type file struct {
	f    *ast.File
	fset *token.FileSet
}

var cache = map[string]*file{}

func load(rel string) *file {
	if f, ok := cache[rel]; ok {
		return f
	}
	fset := token.NewFileSet()
	af, err := parser.ParseFile(fset, filepath.Join(repo, rel), nil, parser.ParseComments)
	if err != nil {
		fmt.Fprintln(os.Stderr, "parse", rel, err)
		cache[rel] = nil
		return nil
	}
	cache[rel] = &file{af, fset}
	return cache[rel]
}

// evalConst evaluates a constant expression built from literals, unary/binary
// operators, parentheses, conversions like int64(x)/float64(x), and identifiers
// declared as constants (or simple vars) in the same file.
func evalConst(f *file, e ast.Expr, depth int) constant.Value {
	if depth > 20 {
		return constant.MakeUnknown()
	}
	switch x := e.(type) {
	case *ast.BasicLit:
		return constant.MakeFromLiteral(x.Value, x.Kind, 0)
	case *ast.ParenExpr:
		return evalConst(f, x.X, depth+1)
	case *ast.UnaryExpr:
		v := evalConst(f, x.X, depth+1)
		if v.Kind() == constant.Unknown {
			return v
		}
		return constant.UnaryOp(x.Op, v, 0)
	case *ast.BinaryExpr:
		a, b := evalConst(f, x.X, depth+1), evalConst(f, x.Y, depth+1)
		if a.Kind() == constant.Unknown || b.Kind() == constant.Unknown {
			return constant.MakeUnknown()
		}
		op := x.Op
		if op == token.QUO && a.Kind() == constant.Int && b.Kind() == constant.Int {
			op = token.QUO_ASSIGN // integer division
		}
		defer func() { recover() }()
		return constant.BinaryOp(a, op, b)
	case *ast.Ident:
		if d := findDecl(f, x.Name); d != nil {
			return evalConst(f, d, depth+1)
		}
	case *ast.CallExpr:
		// conversions T(x), big.NewInt(x), time.Duration etc.
		if len(x.Args) == 1 {
			return evalConst(f, x.Args[0], depth+1)
		}
	case *ast.SelectorExpr:
		// time.Hour etc.
		if id, ok := x.X.(*ast.Ident); ok && id.Name == "time" {
			switch x.Sel.Name {
			case "Hour":
				return constant.MakeInt64(3600e9)
			case "Minute":
				return constant.MakeInt64(60e9)
			case "Second":
				return constant.MakeInt64(1e9)
			}
		}
	}
	return constant.MakeUnknown()
}

// findDecl finds the initialiser of a package-level const/var named name.
func findDecl(f *file, name string) ast.Expr {
	for _, d := range f.f.Decls {
		gd, ok := d.(*ast.GenDecl)
		if !ok || (gd.Tok != token.CONST && gd.Tok != token.VAR) {
			continue
		}
		for _, s := range gd.Specs {
			vs := s.(*ast.ValueSpec)
			for i, n := range vs.Names {
				if n.Name == name && i < len(vs.Values) {
					return vs.Values[i]
				}
			}
		}
	}
	return nil
}

func constToZ(v constant.Value) (string, bool) {
	switch v.Kind() {
	case constant.Int:
		return v.ExactString(), true
	case constant.Float:
		// exact rational; accept only integers
		r, ok := new(big.Rat).SetString(v.ExactString())
		if ok && r.IsInt() {
			return r.Num().String(), true
		}
	}
	return "", false
}

type out struct {
	sb strings.Builder
}

func (o *out) def(name, val, comment string) {
	if strings.HasPrefix(val, "-") {
		val = "(" + val + ")"
	}
	fmt.Fprintf(&o.sb, "Definition %s : Z := %s. (* %s *)\n", name, val, comment)
}

// pkgConst emits a package-level constant/var by name.
func (o *out) pkgConst(coq, rel, ident string) {
	f := load(rel)
	if f == nil {
		o.def(coq, "UNKNOWN_FILE", rel)
		return
	}
	d := findDecl(f, ident)
	if d == nil {
		o.def(coq, "UNKNOWN_IDENT", rel+":"+ident)
		return
	}
	if z, ok := constToZ(evalConst(f, d, 0)); ok {
		o.def(coq, z, rel+":"+ident)
		return
	}
	o.def(coq, "UNKNOWN_SHAPE", rel+":"+ident)
}

// bipToPipVar emits a package-level `x = helpers.BipToPip(big.NewInt(N))` as N * 10^18, after checking
// that helpers.BipToPip still is "10 ** 18 * bip".
func (o *out) bipToPipVar(coq, rel, ident string) {
	f := load(rel)
	if f == nil {
		o.def(coq, "UNKNOWN_FILE", rel)
		return
	}
	call, ok := findDecl(f, ident).(*ast.CallExpr)
	if !ok || len(call.Args) != 1 {
		o.def(coq, "UNKNOWN_SHAPE", rel+":"+ident)
		return
	}
	sel, ok := call.Fun.(*ast.SelectorExpr)
	if !ok || sel.Sel.Name != "BipToPip" {
		o.def(coq, "UNKNOWN_SHAPE", rel+":"+ident)
		return
	}
	n, ok := constToZ(evalConst(f, call.Args[0], 0))
	h := load("helpers/helpers.go")
	if !ok || h == nil {
		o.def(coq, "UNKNOWN_SHAPE", rel+":"+ident)
		return
	}
	// helpers.BipToPip: p := big.NewInt(10); p.Exp(p, big.NewInt(18), nil); p.Mul(p, bip); return p
	lits := funcIntLits(h, "BipToPip")
	if len(lits) != 2 || lits[0] != "10" || lits[1] != "18" {
		o.def(coq, "UNKNOWN_SHAPE", "helpers/helpers.go:BipToPip")
		return
	}
	o.def(coq, n+"000000000000000000", rel+":"+ident+" = helpers.BipToPip("+n+")")
}

// funcIntLits lists the integer literals other than 0 in the body of the named function or method,
// in source order.
func funcIntLits(f *file, fn string) []string {
	var lits []string
	for _, d := range f.f.Decls {
		fd, ok := d.(*ast.FuncDecl)
		if !ok || fd.Name.Name != fn || fd.Body == nil {
			continue
		}
		ast.Inspect(fd.Body, func(n ast.Node) bool {
			if bl, ok := n.(*ast.BasicLit); ok && bl.Kind == token.INT {
				if z, ok := constToZ(constant.MakeFromLiteral(bl.Value, bl.Kind, 0)); ok && z != "0" {
					lits = append(lits, z)
				}
			}
			return true
		})
	}
	return lits
}

// funcLits emits the single integer literal value (other than 0 and than the literals named in
// `others`) used in a function body; it must occur exactly `times` times and every literal of
// `others` exactly as often as stated there (fail closed otherwise).
func (o *out) funcLits(coq, rel, fn string, times int, what string, others map[string]int) {
	f := load(rel)
	if f == nil {
		o.def(coq, "UNKNOWN_FILE", rel)
		return
	}
	var lits []string
	seen := map[string]int{}
	for _, l := range funcIntLits(f, fn) {
		if _, ok := others[l]; ok {
			seen[l]++
			continue
		}
		lits = append(lits, l)
	}
	for l, n := range others {
		if seen[l] != n {
			o.def(coq, "UNKNOWN_SHAPE", rel+":"+fn)
			return
		}
	}
	if len(lits) != times {
		o.def(coq, "UNKNOWN_SHAPE", rel+":"+fn)
		return
	}
	for _, l := range lits {
		if l != lits[0] {
			o.def(coq, "UNKNOWN_SHAPE", rel+":"+fn)
			return
		}
	}
	o.def(coq, lits[0], rel+":"+fn+" "+what)
}

func writeIfChanged(path, content string) {
	old, err := os.ReadFile(path)
	if err == nil && string(old) == content {
		return
	}
	if err := os.WriteFile(path, []byte(content), 0644); err != nil {
		fmt.Fprintln(os.Stderr, err)
		os.Exit(1)
	}
}

func main() {
	if len(os.Args) == 3 && os.Args[1] == "-selftest" {
		repo = os.Args[2]
		if !mrSelfTest(os.Stdout) {
			os.Exit(1)
		}
		return
	}
	if len(os.Args) < 3 {
		fmt.Println("usage: xlate <repo> <outdir> | xlate -selftest <repo>")
		os.Exit(2)
	}
	repo = os.Args[1]
	outdir := os.Args[2]
	outDir = outdir
	digests := []string{}
	for name, gen := range generators {
		content := gen()
		writeIfChanged(filepath.Join(outdir, name), content)
		digests = append(digests, fmt.Sprintf("%s:%d", name, len(content)))
	}
	sort.Strings(digests)
	fmt.Println("xlate " + strings.Join(digests, " "))
}

var generators = map[string]func() string{
	"Consts.v": genConsts,
	"PersistGen.v": genPersist,
	"Locks.v": genLocks,
	"Locks.unguarded.txt": genLocksUnguarded,
}

var _ = ast.Inspect
