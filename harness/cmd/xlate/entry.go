package main

// entry.go — the block height the two ABCI entry points hand to the transaction executor:
// Blockchain.CheckTx and Blockchain.DeliverTx both call executor.RunTx(state, tx, pool, HEIGHT, ...).
// The check-mode runs of the harness (C06) call RunTx themselves; this translator ties the height they
// use to the source: HEIGHT must have the shape blockchain.Height() or blockchain.Height()+k.

import (
	"go/ast"
	"go/token"
	"strconv"
)

// runTxHeightOffset returns k for the 4th argument `blockchain.Height()+k` of the RunTx call in method fn.
func runTxHeightOffset(fn string) (string, bool) {
	f := load("coreV2/minter/blockchain.go")
	if f == nil {
		return "", false
	}
	res, n := "", 0
	for _, d := range f.f.Decls {
		fd, ok := d.(*ast.FuncDecl)
		if !ok || fd.Name.Name != fn || fd.Recv == nil || fd.Body == nil {
			continue
		}
		ast.Inspect(fd.Body, func(x ast.Node) bool {
			call, ok := x.(*ast.CallExpr)
			if !ok {
				return true
			}
			sel, ok := call.Fun.(*ast.SelectorExpr)
			if !ok || sel.Sel.Name != "RunTx" || len(call.Args) != 7 {
				return true
			}
			n++
			isHeight := func(e ast.Expr) bool {
				c, ok := e.(*ast.CallExpr)
				if !ok || len(c.Args) != 0 {
					return false
				}
				s, ok := c.Fun.(*ast.SelectorExpr)
				if !ok || s.Sel.Name != "Height" {
					return false
				}
				id, ok := s.X.(*ast.Ident)
				return ok && id.Name == "blockchain"
			}
			switch a := call.Args[3].(type) {
			case *ast.CallExpr:
				if isHeight(a) {
					res = "0"
				}
			case *ast.BinaryExpr:
				if lit, ok := a.Y.(*ast.BasicLit); ok && lit.Kind == token.INT && isHeight(a.X) && (a.Op == token.ADD || a.Op == token.SUB) {
					if v, err := strconv.Atoi(lit.Value); err == nil {
						if a.Op == token.SUB {
							v = -v
						}
						res = strconv.Itoa(v)
					}
				}
			}
			return true
		})
	}
	if n != 1 || res == "" {
		return "", false
	}
	return res, true
}

func genEntry(o *out) {
	for _, e := range [][2]string{{"checktx_height_offset", "CheckTx"}, {"delivertx_height_offset", "DeliverTx"}} {
		if v, ok := runTxHeightOffset(e[1]); ok {
			o.def(e[0], v, "coreV2/minter/blockchain.go:"+e[1]+" RunTx(.., blockchain.Height()+k, ..)")
		} else {
			o.def(e[0], "UNKNOWN_SHAPE", "coreV2/minter/blockchain.go:"+e[1])
		}
	}
}
