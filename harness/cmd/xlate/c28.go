package main

// c28.go — constants of the block-reward rule (property C28), taken from literals inside
// function bodies:
//   coreV2/rewards/rewards.go   const TotalEmission = "1000…0" (a decimal string)
//   coreV2/appdb/appdb.go       UpdatePriceFix: NewFloat(0.25), NewFloat(350), NewFloat(1e18),
//                               SetInt64(100), NewInt(-10), SetInt64(0), NewInt(5e18) twice
//   coreV2/minter/blockchain.go BeginBlock: height%period == 1, Hour() >= 12, Hour() <= 14,
//                               Time.Sub(t) > 3*time.Hour
// Fails closed: any other shape is emitted as UNKNOWN_SHAPE (does not type-check in Coq).

import (
	"go/ast"
	"go/constant"
	"go/token"
	"math/big"
	"strconv"
)

type callLit struct {
	fn  string
	val constant.Value
}

// callLits lists, in source order, the calls X.<fn>(lit) with fn in names and a single
// constant argument, inside fd.
func callLits(f *file, fd *ast.FuncDecl, names map[string]bool) []callLit {
	var out []callLit
	ast.Inspect(fd.Body, func(n ast.Node) bool {
		c, ok := n.(*ast.CallExpr)
		if !ok || len(c.Args) != 1 {
			return true
		}
		sel, ok := c.Fun.(*ast.SelectorExpr)
		if !ok || !names[sel.Sel.Name] {
			return true
		}
		out = append(out, callLit{sel.Sel.Name, evalConst(f, c.Args[0], 0)})
		return true
	})
	return out
}

func ratOf(v constant.Value) *big.Rat {
	if v.Kind() != constant.Int && v.Kind() != constant.Float {
		return nil
	}
	r, ok := new(big.Rat).SetString(v.ExactString())
	if !ok {
		return nil
	}
	return r
}

func intOf(v constant.Value) (string, bool) {
	r := ratOf(v)
	if r == nil || !r.IsInt() {
		return "", false
	}
	return r.Num().String(), true
}

// selName: the method name of a call expression x.y.Name(...), "" otherwise.
func selName(e ast.Expr) string {
	if c, ok := e.(*ast.CallExpr); ok {
		if s, ok := c.Fun.(*ast.SelectorExpr); ok {
			return s.Sel.Name
		}
	}
	return ""
}

func genC28(o *out) {
	// ---- cap -------------------------------------------------------------------------
	rel := "coreV2/rewards/rewards.go"
	cap := "UNKNOWN_SHAPE"
	if f := load(rel); f != nil {
		if d := findDecl(f, "TotalEmission"); d != nil {
			if bl, ok := d.(*ast.BasicLit); ok && bl.Kind == token.STRING {
				if s, err := strconv.Unquote(bl.Value); err == nil {
					if z, ok := new(big.Int).SetString(s, 10); ok {
						cap = z.String()
					}
				}
			}
		}
	}
	o.def("rw_total_emission", cap, rel+":TotalEmission")

	// ---- UpdatePriceFix -----------------------------------------------------------------
	rel = "coreV2/appdb/appdb.go"
	names := []string{"rw_root", "rw_coeff", "rw_unit", "rw_pct", "rw_drop", "rw_step"}
	vals := map[string]string{}
	if f := load(rel); f != nil {
		if fd := findFunc(f, "AppDB", "UpdatePriceFix"); fd != nil {
			ls := callLits(f, fd, map[string]bool{"NewFloat": true, "NewInt": true, "SetInt64": true})
			// in source order: 0.25, 350, 1e18 | 100 | Div receiver 0 | -10 | last:=0 | 5e18, 5e18 | Sub receiver 0
			want := []string{"NewFloat", "NewFloat", "NewFloat", "SetInt64", "NewInt", "NewInt", "SetInt64", "NewInt", "NewInt", "NewInt"}
			okShape := len(ls) == len(want)
			for i := range want {
				okShape = okShape && i < len(ls) && ls[i].fn == want[i] && ratOf(ls[i].val) != nil
			}
			if okShape {
				// exponent 0.25 -> root 4
				if e := ratOf(ls[0].val); e.Sign() > 0 && e.Num().Cmp(big.NewInt(1)) == 0 {
					vals["rw_root"] = e.Denom().String()
				}
				if z, ok := intOf(ls[1].val); ok {
					vals["rw_coeff"] = z
				}
				if z, ok := intOf(ls[2].val); ok {
					vals["rw_unit"] = z
				}
				if z, ok := intOf(ls[3].val); ok {
					vals["rw_pct"] = z
				}
				if z, ok := intOf(ls[5].val); ok && ratOf(ls[4].val).Sign() == 0 {
					vals["rw_drop"] = z
				}
				// last.SetInt64(0) on the drop path, then last += a; last += b; burn = NewInt(0).Sub(..)
				z0, ok0 := intOf(ls[6].val)
				a, b, z8 := ratOf(ls[7].val), ratOf(ls[8].val), ratOf(ls[9].val)
				if ok0 && z0 == "0" && a.IsInt() && b.IsInt() && z8.Sign() == 0 {
					vals["rw_step"] = new(big.Int).Add(a.Num(), b.Num()).String()
				}
			}
		}
	}
	for _, n := range names {
		v, ok := vals[n]
		if !ok {
			v = "UNKNOWN_SHAPE"
		}
		o.def(n, v, rel+":UpdatePriceFix")
	}

	// ---- BeginBlock window ----------------------------------------------------------------
	rel = "coreV2/minter/blockchain.go"
	win := map[string]string{}
	count := map[string]int{}
	if f := load(rel); f != nil {
		if fd := findFunc(f, "Blockchain", "BeginBlock"); fd != nil {
			ast.Inspect(fd.Body, func(n ast.Node) bool {
				b, ok := n.(*ast.BinaryExpr)
				if !ok {
					return true
				}
				set := func(name string) {
					count[name]++
					if z, ok := intOf(evalConst(f, b.Y, 0)); ok {
						win[name] = z
					}
				}
				switch {
				case b.Op == token.GEQ && selName(b.X) == "Hour":
					set("rw_hour_from")
				case b.Op == token.LEQ && selName(b.X) == "Hour":
					set("rw_hour_to")
				case b.Op == token.GTR && selName(b.X) == "Sub":
					set("rw_gap_ns")
				case b.Op == token.EQL:
					if m, ok := b.X.(*ast.BinaryExpr); ok && m.Op == token.REM {
						if s, ok := m.Y.(*ast.SelectorExpr); ok && s.Sel.Name == "updateStakesAndPayRewardsPeriod" {
							set("rw_period_offset")
						}
					}
				}
				return true
			})
		}
	}
	for _, n := range []string{"rw_period_offset", "rw_hour_from", "rw_hour_to", "rw_gap_ns"} {
		v, ok := win[n]
		if !ok || count[n] != 1 {
			v = "UNKNOWN_SHAPE"
		}
		o.def(n, v, rel+":BeginBlock")
	}
}
