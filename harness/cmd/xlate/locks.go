package main

// locks.go — C25: the table of accesses to the shared in-memory fields of the state modules,
// each with the locks that MUST be held when it executes (go/ast + go/types, stdlib only;
// imports are not resolved: only selections on the package's own struct types are needed).
//
// Output: Generated/Locks.v (guard table, access table, the translator's own list of
// unguarded sites) and Generated/Locks.unguarded.txt (the same list, read by `vharness c25`).
//
// Analysis, per function body (function literals are separate bodies):
//   * a forward MUST-lockset dataflow over the statements: x.Lock()/x.RLock() add the lock
//     (identity = owning struct type + mutex field + the base expression x, as written),
//     x.Unlock()/x.RUnlock() remove it, `defer x.Unlock()` keeps it to the end; branches meet
//     by intersection; loops are iterated to their fixpoint; break/continue feed the meet;
//     `goto` makes the whole function unattributable (every access emitted with no lock);
//   * context: an unexported function/method inherits the intersection of the locks held at
//     all of its call sites in the package (translated through the receiver expression);
//     exported functions, functions used as values and functions without call sites inherit
//     nothing.  Iterated to a fixpoint (least solution from "nothing").
//   * a literal passed as an argument or called in place runs under the locks of that point;
//     `go`, `defer func(){}()`, returned or stored literals run under no lock.
// FAIL CLOSED: an access whose guard is not provably held is emitted with the locks that are
// provably held (possibly none) and Coq's checker rejects it; a field or mutex of the table
// that no longer exists makes Locks.v ill-typed.

import (
	"bufio"
	"fmt"
	"go/ast"
	"go/parser"
	"go/token"
	"go/types"
	"os"
	"path/filepath"
	"regexp"
	"sort"
	"strings"
)

// ---- what is shared, and which mutex is MEANT to guard it ------------------------------

// guardSpec: mutex field GField of struct GStruct; Rel "same": x.mu guards x.f; "owner1": p.lockOrders
// guards p.<sub>.f (the access base minus one selector)
type guardSpec struct{ GStruct, GField, Rel string }

// fieldSpec: a shared field and its guards.  With several guards a WRITE must hold all of them
// (in W mode) and a READ at least one (any mode) — the read/write-lockset discipline of Lockset.v.
type fieldSpec struct {
	Struct, Field string
	Guards        []guardSpec
	Mut           bool // the field is a pointer to a mutable object (big.Int): mutator method calls on it are writes
	Atomic        bool // accessed through sync/atomic only: atomic.F(&x.f, ...) is not a table access, anything else is unguarded
	Why           string
}

func fsp(st, f string, mut bool, why string, gs ...guardSpec) fieldSpec {
	return fieldSpec{Struct: st, Field: f, Guards: gs, Mut: mut, Why: why}
}
func gd(st, f, rel string) guardSpec { return guardSpec{st, f, rel} }

type lockPkg struct {
	Dir      string
	Files    []string // nil: every non-test file without a build constraint
	Fields   []fieldSpec
	Ifaces   map[string]string // read-only interface -> implementing struct: its methods are query entry points
	Roots    []string          // further query entry points "Recv.Method"
	NotRoots map[string]string // interface methods that are not entry points, with the reason
	Init     map[string]string // single_threaded_init allow-list: function -> why it runs before the object is shared
	DeadRecv map[string]string // receiver types never instantiated in production, with the reason
	// Views: "Recv.method" -> fields the method must copy verbatim (K: r.K) into the struct it returns: x.method()
	// is then another handle on the same shared objects and mutexes, and is treated as x in lock identities
	Views map[string][]string
	// Internal: exported methods that are only called inside the package: they inherit locks from their call
	// sites like unexported ones.  Value: a regexp that every occurrence of ".Method(" in the other non-test
	// files of the repo must match together with the text before it ("" = no occurrence allowed); checked here.
	Internal map[string]string
	// HistoricalOnly: methods that outside this package may only be called from coreV2/state/state.go (constructors)
	// or, in api/v2/service, inside an `if req.Height != 0` block (a private state at a past height); checked here
	HistoricalOnly []string
	// Unreachable: exported methods that nothing calls: no call site in the package, and every occurrence of
	// ".Method(" in the other non-test files of the repo matches the regexp (it belongs to another type); checked
	// here.  Their accesses are emitted as allow-listed (via "unreachable"): code that never runs cannot race.
	Unreachable map[string]string
}

var lockPkgs = []*lockPkg{
	{
		Dir:   "coreV2/state/swap",
		Files: []string{"swapV2.go", "orderV2.go", "order.go", "swap.go", "traderV2.go", "trade.go", "route.go", "token.go"},
		Fields: []fieldSpec{
			fsp("SwapV2", "pairs", false, "the pool registry; Pair()/ReturnPair()/addPair write it under muPairs.Lock, SwapPools reads it under RLock", gd("SwapV2", "muPairs", "same")),
			fsp("SwapV2", "dirties", false, "markDirty closures write it under muPairs.Lock; Commit reads it under muPairs.RLock", gd("SwapV2", "muPairs", "same")),
			fsp("SwapV2", "dirtiesOrders", false, "markDirtyOrders closures write it under muPairs.Lock; Commit reads it under muPairs.RLock", gd("SwapV2", "muPairs", "same")),
			fsp("SwapV2", "nextID", false, "incID/Commit take muNextID", gd("SwapV2", "muNextID", "same")),
			fsp("SwapV2", "dirtyNextID", false, "incID/Commit take muNextID", gd("SwapV2", "muNextID", "same")),
			fsp("SwapV2", "nextOrderID", false, "incOrdersID/Commit take muNextOrdersID", gd("SwapV2", "muNextOrdersID", "same")),
			fsp("SwapV2", "dirtyNextOrdersID", false, "incOrdersID/Commit take muNextOrdersID", gd("SwapV2", "muNextOrdersID", "same")),
			fsp("SwapV2", "loadedPools", false, "loadPools takes muLoadPools", gd("SwapV2", "muLoadPools", "same")),
			fsp("orderList", "list", false, "PairV2.orders: getOrder/setOrder/GetOrders take orders.mu (lockOrders is NOT a second guard: transaction.RemoveLimitOrder calls IsOrderAlreadyUsed -> getOrder -> order(), which fills the map, without lockOrders)", gd("orderList", "mu", "same")),
			fsp("orderDirties", "list", false, "PairV2.dirtyOrders/deleted*/unsortedDirty*: each has its own mu", gd("orderDirties", "mu", "same")),
			fsp("limits", "ids", false, "PairV2.sellOrders/buyOrders/loaded*Orders id slices: every exported PairV2 order method takes lockOrders", gd("PairV2", "lockOrders", "owner1")),
			fsp("pairData", "Reserve0", true, "Reserves()/update() take pairData.mu", gd("pairData", "mu", "same")),
			fsp("pairData", "Reserve1", true, "Reserves()/update() take pairData.mu", gd("pairData", "mu", "same")),
		},
		Ifaces: map[string]string{"RSwap": "SwapV2", "EditableChecker": "PairV2"},

		Init: map[string]string{
			"NewV2":         "constructor: the object is not yet published",
			"SwapV2.Import": "genesis import inside InitChain, before Tendermint opens the query/mempool connections for this state",
			"SwapV2.Export": "only run on a private state: State.Export and `minter export` build a fresh CheckState at a height (checked here: no .Export( on a state in api/, cli/, coreV2/minter)",
		},
		DeadRecv: map[string]string{
			"Swap":     "legacy V1 pool store: state.NewStateV3/NewCheckStateAtHeightV3 (the only constructors used by coreV2/minter) create SwapV2",
			"Pair":     "legacy V1 pair, only reachable from Swap",
			"traderV1": "legacy router, only installed by swap.New (V1)",
		},
		Internal: map[string]string{
			"PairV2.MarkDirtyOrders": "",
			"PairV2.GetOrder":        `Swap\(\)\.GetOrder\($`, // api/v2/service: cState.Swap().GetOrder(id) is SwapV2.GetOrder
		},
		Views: map[string][]string{
			"PairV2.reverse": {"lockOrders", "sellOrders", "buyOrders", "orders", "dirtyOrders", "deletedSellOrders", "deletedBuyOrders",
				"loadedSellOrders", "loadedBuyOrders", "unsortedDirtyBuyOrders", "unsortedDirtySellOrders"},
			"PairV2.Reverse":   nil, // return p.reverse()
			"pairData.reverse": {"mu"},
		},
	},
	{
		Dir: "coreV2/state/candidates",
		Fields: []fieldSpec{
			fsp("Candidates", "list", false, "getFromMap/setToMap/GetCandidates take lock", gd("Candidates", "lock", "same")),
			fsp("Candidates", "pubKeyIDs", false, "id()/setPubKeyID take lock", gd("Candidates", "lock", "same")),
			fsp("Candidates", "blockList", false, "isBlocked/setBlockPubKey take lock", gd("Candidates", "lock", "same")),
			fsp("Candidates", "maxID", false, "getOrNewID takes lock", gd("Candidates", "lock", "same")),
			fsp("Candidates", "loaded", false, "checkAndSetLoaded takes lock", gd("Candidates", "lock", "same")),
			fsp("Candidates", "isDirty", false, "set next to the maps it describes", gd("Candidates", "lock", "same")),
			fsp("Candidates", "totalStakes", true, "the only mutex of the struct besides muDeletedCandidates", gd("Candidates", "lock", "same")),
			fsp("Candidates", "deletedCandidates", false, "dedicated mutex", gd("Candidates", "muDeletedCandidates", "same")),
			fsp("Candidates", "dirtyDeletedCandidates", false, "dedicated mutex", gd("Candidates", "muDeletedCandidates", "same")),
		},
		Ifaces: map[string]string{"RCandidates": "Candidates"},
		NotRoots: map[string]string{"ExportV1": "no caller in the repo (v1 genesis migration, removed)",
			"LoadCandidates": "api/v2/service calls it only inside `if req.Height != 0`, i.e. on a private historical state (checked here); state.go calls it in the constructors", "LoadStakes": "api/v2/service calls it only inside `if req.Height != 0`, i.e. on a private historical state (checked here); state.go calls it in the constructors", "LoadStakesOfCandidate": "api/v2/service calls it only inside `if req.Height != 0`, i.e. on a private historical state (checked here); state.go calls it in the constructors"},
		Init: map[string]string{
			"NewCandidates":                      "constructor: the object is not yet published",
			"Candidates.Export":                  "only run on a private state: State.Export and `minter export` build a fresh CheckState at a height (checked here: no .Export( on a state in api/, cli/, coreV2/minter)",
			"Candidates.ExportV1":                "no caller in the repo",
			"Candidates.LoadCandidatesDeliver":   "called by state.NewStateV3 before the State is returned (checked here: no other caller outside the package); later calls return at checkAndSetLoaded",
			"Candidates.LoadStakes":              "called by state.NewStateV3 before the State is returned; api/v2/service only on a private historical state (checked here)",
			"Candidates.loadStakes":              "only called by LoadStakes and Export",
			"Candidates.loadCandidatesDeliverV1": "legacy loader, no caller outside deprecated.go's ExportV1 path",
			"Candidates.loadStakesV1":            "legacy loader, no caller outside deprecated.go's ExportV1 path",
		},
		HistoricalOnly: []string{"LoadCandidates", "LoadStakes", "LoadStakesOfCandidate", "LoadCandidatesDeliver"},
	},
	{
		Dir: "coreV2/state/accounts",
		Fields: []fieldSpec{
			fsp("Accounts", "list", false, "getFromMap/setToMap take lock", gd("Accounts", "lock", "same")),
			fsp("Accounts", "dirty", false, "markDirty takes lock", gd("Accounts", "lock", "same")),
			fsp("Model", "balances", false, "getBalance/setBalance take the model's lock", gd("Model", "lock", "same")),
			fsp("Model", "coins", false, "the model's lock", gd("Model", "lock", "same")),
			fsp("Model", "dirtyBalances", false, "the model's lock", gd("Model", "lock", "same")),
		},
		Ifaces:   map[string]string{"RAccounts": "Accounts"},
		NotRoots: map[string]string{"ExportV1": "no caller in the repo"},
		Init:     map[string]string{"NewAccounts": "constructor: the object is not yet published", "Accounts.Export": "only run on a private state: State.Export and `minter export` build a fresh CheckState at a height (checked here: no .Export( on a state in api/, cli/, coreV2/minter)"},
	},
	{
		Dir: "coreV2/state/validators",
		Fields: []fieldSpec{
			fsp("Validators", "list", false, "GetValidators/SetValidators take lock", gd("Validators", "lock", "same")),
			fsp("Validators", "removed", false, "written next to list", gd("Validators", "lock", "same")),
			fsp("Validators", "loaded", false, "LoadValidators takes lock", gd("Validators", "lock", "same")),
		},
		Ifaces: map[string]string{"RValidators": "Validators"},
		Unreachable: map[string]string{
			"Validators.Create": `(snapshotManager|pair|Candidates|Coins|os)\.Create\($|^coreV2/state/(coins|candidates)/\w+\.go\t\s*c\.Create\($`, // (it appends to v.list under RLock: to be fixed or deleted should it ever be used)
		},
		NotRoots:       map[string]string{"LoadValidators": "api/v2/service calls it only inside `if req.Height != 0`, i.e. on a private historical state (checked here); state.go calls it in the constructors"},
		Init:           map[string]string{"NewValidators": "constructor: the object is not yet published", "Validators.Export": "only run on a private state: State.Export and `minter export` build a fresh CheckState at a height (checked here: no .Export( on a state in api/, cli/, coreV2/minter)"},
		HistoricalOnly: []string{"LoadValidators"},
	},
	{
		Dir: "coreV2/state/coins",
		Fields: []fieldSpec{
			fsp("Coins", "list", false, "getFromMap/setToMap take lock", gd("Coins", "lock", "same")),
			fsp("Coins", "dirty", false, "markDirty takes lock", gd("Coins", "lock", "same")),
			fsp("Coins", "symbolsList", false, "getSymbolCoins/setSymbolToMap take lock", gd("Coins", "lock", "same")),
			fsp("Coins", "symbolsInfoList", false, "getSymbolInfo/setSymbolInfoToMap take lock", gd("Coins", "lock", "same")),
		},
		Ifaces:   map[string]string{"RCoins": "Coins"},
		NotRoots: map[string]string{"ExportV1": "no caller in the repo"},
		Init:     map[string]string{"NewCoins": "constructor: the object is not yet published", "Coins.Export": "only run on a private state: State.Export and `minter export` build a fresh CheckState at a height (checked here: no .Export( on a state in api/, cli/, coreV2/minter)"},
	},
	{
		Dir: "coreV2/state/waitlist",
		Fields: []fieldSpec{
			fsp("WaitList", "list", false, "getFromMap/setToMap take lock", gd("WaitList", "lock", "same")),
			fsp("WaitList", "dirty", false, "markDirty takes lock", gd("WaitList", "lock", "same")),
		},
		Ifaces:   map[string]string{"RWaitList": "WaitList"},
		NotRoots: map[string]string{"ExportV1": "no caller in the repo"},
		Init:     map[string]string{"NewWaitList": "constructor: the object is not yet published", "WaitList.Export": "only run on a private state: State.Export and `minter export` build a fresh CheckState at a height (checked here: no .Export( on a state in api/, cli/, coreV2/minter)"},
	},
	{
		Dir: "coreV2/state/frozenfunds",
		Fields: []fieldSpec{
			fsp("FrozenFunds", "list", false, "get/setToMap take lock", gd("FrozenFunds", "lock", "same")),
			fsp("FrozenFunds", "dirty", false, "markDirty takes lock", gd("FrozenFunds", "lock", "same")),
		},
		Ifaces: map[string]string{"RFrozenFunds": "FrozenFunds"},
		Init:   map[string]string{"NewFrozenFunds": "constructor: the object is not yet published", "FrozenFunds.Export": "only run on a private state: State.Export and `minter export` build a fresh CheckState at a height (checked here: no .Export( on a state in api/, cli/, coreV2/minter)"},
	},
	{
		Dir: "coreV2/appdb",
		Fields: []fieldSpec{
			{Struct: "AppDB", Field: "lastHeight", Atomic: true, Guards: []guardSpec{gd("AppDB", "mu", "same")}, Why: "read and written with atomic.LoadUint64/StoreUint64 only (outside the lock model; any plain access is reported)"},
			{Struct: "AppDB", Field: "startHeight", Atomic: true, Guards: []guardSpec{gd("AppDB", "mu", "same")}, Why: "read and written with atomic.LoadUint64/StoreUint64 only (outside the lock model; any plain access is reported)"},
			fsp("AppDB", "lastTimeBlocks", false, "AddBlocksTime/GetLastBlockTimeDelta take mu", gd("AppDB", "mu", "same")),
			fsp("AppDB", "validators", false, "Get/Set/FlushValidators take mu", gd("AppDB", "mu", "same")),
			fsp("AppDB", "versions", false, "GetVersions/AddVersion take mu", gd("AppDB", "mu", "same")),
			fsp("AppDB", "isDirtyVersions", false, "AddVersion/SaveVersions take mu", gd("AppDB", "mu", "same")),
			fsp("AppDB", "emission", false, "Emission/SetEmission take mu", gd("AppDB", "mu", "same")),
			fsp("AppDB", "isDirtyEmission", false, "SetEmission/SaveEmission take mu", gd("AppDB", "mu", "same")),
			fsp("AppDB", "price", false, "GetPrice/SetPrice take mu", gd("AppDB", "mu", "same")),
			fsp("AppDB", "isDirtyPrice", false, "SetPrice/SavePrice take mu", gd("AppDB", "mu", "same")),
		},
		// what api/v2/service and cli/service reach through Blockchain: GetEmission, GetVersionHeight,
		// UpdateVersions, InitialHeight, Info/status (cross-checked below against the calls
		// `blockchain.appDB.X` made by the query entry points of coreV2/minter)
		Roots: []string{"AppDB.Emission", "AppDB.GetVersionHeight", "AppDB.GetVersions", "AppDB.GetStartHeight", "AppDB.GetLastHeight", "AppDB.GetLastBlockHash", "AppDB.GetVersionName"},
		Init: map[string]string{
			"NewAppDB": "constructor: the object is not yet published",
		},
	},
	{
		Dir:   "coreV2/minter",
		Files: []string{"blockchain.go", "minter.go"},
		Fields: []fieldSpec{
			fsp("Blockchain", "validatorsStatuses", false, "BeginBlock writes it under lockValidators.Lock, GetValidatorStatus reads it under RLock", gd("Blockchain", "lockValidators", "same")),
			fsp("Blockchain", "validatorsPowers", false, "declared in the block of fields below lockValidators", gd("Blockchain", "lockValidators", "same")),
			fsp("Blockchain", "totalPower", true, "declared in the block of fields below lockValidators", gd("Blockchain", "lockValidators", "same")),
		},
		// methods called by api/v2/service/*.go and cli/service/service.go, and the mempool connection
		Roots: []string{"Blockchain.CurrentState", "Blockchain.GetStateForHeight", "Blockchain.GetEmission", "Blockchain.GetVersionHeight",
			"Blockchain.Height", "Blockchain.InitialHeight", "Blockchain.MinGasPrice", "Blockchain.UpdateVersions", "Blockchain.GetValidatorStatus",
			"Blockchain.AvailableVersions", "Blockchain.StatisticData", "Blockchain.GetEventsDB", "Blockchain.CheckTx", "Blockchain.Info"},
		Init: map[string]string{
			"NewMinterBlockchain": "constructor: the object is not yet published",
		},
	},
}

// a call `<x>.<field>.<M>(...)` / `<x>.bus.<Module>().<M>(...)` made by a query-reachable function
// crosses into another analysed package: M must be a query entry point there (added if not)
var crossField = map[string][2]string{"appDB": {"coreV2/appdb", "AppDB"}}
var busModule = map[string][2]string{
	"Coins": {"coreV2/state/coins", "Bus"}, "Accounts": {"coreV2/state/accounts", "Bus"}, "Candidates": {"coreV2/state/candidates", "Bus"},
	"Validators": {"coreV2/state/validators", "Bus"}, "FrozenFunds": {"coreV2/state/frozenfunds", "Bus"}, "WaitList": {"coreV2/state/waitlist", "Bus"},
}

var bigMutators = map[string]bool{"Set": true, "SetInt64": true, "SetUint64": true, "SetBytes": true, "SetString": true, "Add": true, "Sub": true,
	"Mul": true, "Div": true, "Quo": true, "Rem": true, "Mod": true, "Neg": true, "Abs": true, "Exp": true, "Sqrt": true, "Lsh": true, "Rsh": true, "SetBit": true}

// ---- analysis data ------------------------------------------------------------------------

type heldLock struct {
	ID, Base  string // "Struct.mutexField", base expression as written
	W         bool
	Inherited bool
	Own       bool // acquired in the body being walked (not by a caller, not by the enclosing function of a literal)
	Def       int  // a deferred release is pending: 1 `defer x.Unlock()`, 2 inside a deferred function literal (may be conditional)
	Acq       int  // serial number of the acquisition in the body: two accesses with the same number are in one critical section
}

type lockSet []heldLock

func (s lockSet) clone() lockSet { return append(lockSet{}, s...) }
func (s lockSet) find(id, base string) int {
	for i, l := range s {
		if l.ID == id && l.Base == base {
			return i
		}
	}
	return -1
}

// mayMode: the walk computes the locks that MAY be held (union at joins) instead of those that MUST be;
// only the release check uses it.
var mayMode bool

func meet(a, b lockSet) lockSet {
	var out lockSet
	for _, l := range a {
		if i := b.find(l.ID, l.Base); i >= 0 {
			x := l
			x.W = l.W && b[i].W // held for writing on one path, for reading on the other: held for reading
			x.Inherited = l.Inherited || b[i].Inherited
			if b[i].Def < x.Def {
				x.Def = b[i].Def // a release is pending only if it is on both paths
			}
			if b[i].Acq != x.Acq {
				x.Acq = 0
			}
			out = append(out, x)
		} else if mayMode {
			out = append(out, l)
		}
	}
	if mayMode {
		for _, l := range b {
			if a.find(l.ID, l.Base) < 0 {
				out = append(out, l)
			}
		}
	}
	return out
}
func sameSet(a, b lockSet) bool {
	if len(a) != len(b) {
		return false
	}
	for _, l := range a {
		if i := b.find(l.ID, l.Base); i < 0 || b[i].W != l.W {
			return false
		}
	}
	return true
}

type accessRec struct {
	File, Func string
	Line       int
	Field      string // Struct.field
	Base       string
	Write      bool
	Held       lockSet
	Fresh      bool // the base is a local object created in this function (not yet published)
	spec       *fieldSpec
}

// acqRec: a Lock()/RLock() with the locks already held there
type acqRec struct {
	ID, Base string
	W        bool
	Line     int
	Held     lockSet
}

type callRec struct {
	Callee    string    // node name in this package, or "" if cross
	Cross     [3]string // dir, recv, method for a cross-package call
	Recv      string    // receiver expression as written ("" for plain functions)
	Pos       int       // source position of the call
	Args      []string  // argument expressions as written
	Held      lockSet
	FreshRecv bool // the receiver is an object created in the calling function and not yet published
}

type node struct {
	Name     string // "Recv.Method", "func", or "<parent>#n" for the n-th function literal of parent
	Body     *ast.BlockStmt
	RecvName string // receiver identifier
	RecvType string
	Params   []string
	Exported bool
	Internal bool // exported, but every call is in this package
	Dead     bool // exported, declared unreachable and checked to be so
	File     string
	Parent   *node
	LitHeld  *lockSet // for a literal run in place: the locks of that point (recomputed each round)
	Entry    lockSet  // inherited
	AsValue  bool     // referenced without being called: unknown call sites
	Returned bool     // literal in a return statement / stored: not run by its parent
	Accesses []accessRec
	Calls    []callRec
	Acquires []acqRec
	Leaks    []string // locks acquired in the body and held at some exit (must analysis), then (may analysis)
	MayLeaks []string
	Doubles  []string
	Api      bool
	ApiS     bool // query-reachable without passing through a call on a freshly created (private) object
	ApiFrom  string
	Init     bool
	Goto     bool
	nlits    int
}

type pkgAnalysis struct {
	spec      *lockPkg
	fset      *token.FileSet
	info      *types.Info
	nodes     map[string]*node
	order     []string
	fields    map[*types.Var]*fieldSpec // tracked field object -> spec
	mutexes   map[*types.Var]string     // mutex field object -> "Struct.field"
	structOf  map[*types.Var]string     // every field object of the package's structs -> struct name
	fnField   map[string][]string       // struct func-typed field name -> nodes it may point to
	litOf     map[*ast.FuncLit]*node
	ifaces    map[string]bool // interface types declared in the package
	scope     *types.Scope
	implCache map[string]map[string]bool
	fresh     map[types.Object]bool // local variables initialised with a new object
	fnAlias   map[string][]string   // func-typed field -> func-typed fields it is copied from
	errs      []string
	roots     map[string]bool
}

type fakeImporter struct{ pkgs map[string]*types.Package }

func (f *fakeImporter) Import(path string) (*types.Package, error) {
	if p, ok := f.pkgs[path]; ok {
		return p, nil
	}
	name := path[strings.LastIndex(path, "/")+1:]
	p := types.NewPackage(path, name)
	p.MarkComplete()
	f.pkgs[path] = p
	return p, nil
}

func hasBuildConstraint(src []byte) bool {
	for _, l := range strings.Split(string(src), "\n") {
		t := strings.TrimSpace(l)
		if strings.HasPrefix(t, "package ") {
			return false
		}
		if strings.HasPrefix(t, "//go:build") || strings.HasPrefix(t, "// +build") {
			return true
		}
	}
	return false
}

func loadLockPkg(spec *lockPkg) (*pkgAnalysis, error) {
	pa := &pkgAnalysis{spec: spec, fset: token.NewFileSet(), nodes: map[string]*node{}, fields: map[*types.Var]*fieldSpec{},
		mutexes: map[*types.Var]string{}, structOf: map[*types.Var]string{}, fnField: map[string][]string{}, litOf: map[*ast.FuncLit]*node{}, roots: map[string]bool{}, fresh: map[types.Object]bool{}, fnAlias: map[string][]string{}}
	dir := filepath.Join(repo, spec.Dir)
	var names []string
	if spec.Files != nil {
		names = spec.Files
	} else {
		ents, err := os.ReadDir(dir)
		if err != nil {
			return nil, err
		}
		for _, e := range ents {
			if strings.HasSuffix(e.Name(), ".go") && !strings.HasSuffix(e.Name(), "_test.go") {
				names = append(names, e.Name())
			}
		}
	}
	sort.Strings(names)
	var files []*ast.File
	for _, n := range names {
		src, err := os.ReadFile(filepath.Join(dir, n))
		if err != nil {
			return nil, err
		}
		if hasBuildConstraint(src) {
			continue // verif hooks (build tag) are not part of the production binary
		}
		f, err := parser.ParseFile(pa.fset, filepath.Join(spec.Dir, n), src, 0)
		if err != nil {
			return nil, err
		}
		files = append(files, f)
	}
	pa.info = &types.Info{Selections: map[*ast.SelectorExpr]*types.Selection{}, Uses: map[*ast.Ident]types.Object{}, Defs: map[*ast.Ident]types.Object{}, Types: map[ast.Expr]types.TypeAndValue{}}
	conf := types.Config{Importer: &fakeImporter{pkgs: map[string]*types.Package{}}, Error: func(error) {}, DisableUnusedImportCheck: true}
	pkg, _ := conf.Check(spec.Dir, pa.fset, files, pa.info)
	if pkg == nil {
		return nil, fmt.Errorf("type check of %s produced no package", spec.Dir)
	}
	// struct fields
	scope := pkg.Scope()
	pa.ifaces = map[string]bool{}
	pa.scope = scope
	for _, name := range scope.Names() {
		tn, ok := scope.Lookup(name).(*types.TypeName)
		if !ok {
			continue
		}
		if _, isIface := tn.Type().Underlying().(*types.Interface); isIface {
			pa.ifaces[name] = true
		}
		st, ok := tn.Type().Underlying().(*types.Struct)
		if !ok {
			continue
		}
		for i := 0; i < st.NumFields(); i++ {
			pa.structOf[st.Field(i)] = name
		}
	}
	lookup := func(s, f string) *types.Var {
		for v, sn := range pa.structOf {
			if sn == s && v.Name() == f {
				return v
			}
		}
		return nil
	}
	for i := range spec.Fields {
		fs := &spec.Fields[i]
		fv := lookup(fs.Struct, fs.Field)
		if fv == nil {
			pa.errs = append(pa.errs, "UNKNOWN_FIELD_"+fs.Struct+"_"+fs.Field)
			continue
		}
		if len(fs.Guards) == 0 {
			pa.errs = append(pa.errs, "NO_GUARD_FOR_"+fs.Struct+"_"+fs.Field)
		}
		for _, g := range fs.Guards {
			mv := lookup(g.GStruct, g.GField)
			if mv == nil {
				pa.errs = append(pa.errs, "UNKNOWN_MUTEX_"+g.GStruct+"_"+g.GField)
				continue
			}
			pa.mutexes[mv] = g.GStruct + "." + g.GField
		}
		pa.fields[fv] = fs
	}
	// every other field whose declared type is written sync.Mutex / sync.RWMutex (pointer or not) is a mutex too
	for _, f := range files {
		ast.Inspect(f, func(n ast.Node) bool {
			ts, ok := n.(*ast.TypeSpec)
			if !ok {
				return true
			}
			st, ok := ts.Type.(*ast.StructType)
			if !ok {
				return true
			}
			for _, fl := range st.Fields.List {
				t := fl.Type
				if se, ok := t.(*ast.StarExpr); ok {
					t = se.X
				}
				if sel, ok := t.(*ast.SelectorExpr); ok {
					if id, ok := sel.X.(*ast.Ident); ok && id.Name == "sync" && (sel.Sel.Name == "Mutex" || sel.Sel.Name == "RWMutex") {
						for _, nm := range fl.Names {
							if v := lookup(ts.Name.Name, nm.Name); v != nil {
								if _, ok := pa.mutexes[v]; !ok {
									pa.mutexes[v] = ts.Name.Name + "." + nm.Name
								}
							}
						}
					}
				}
			}
			return true
		})
	}
	// nodes: functions and methods
	for _, f := range files {
		fname := pa.fset.Position(f.Pos()).Filename
		for _, d := range f.Decls {
			fd, ok := d.(*ast.FuncDecl)
			if !ok || fd.Body == nil {
				continue
			}
			n := &node{Body: fd.Body, File: fname, Exported: fd.Name.IsExported()}
			n.Name = fd.Name.Name
			for _, pf := range fd.Type.Params.List {
				if len(pf.Names) == 0 {
					n.Params = append(n.Params, "_")
				}
				for _, nm := range pf.Names {
					n.Params = append(n.Params, nm.Name)
				}
			}
			if fd.Recv != nil && len(fd.Recv.List) == 1 {
				t := fd.Recv.List[0].Type
				if se, ok := t.(*ast.StarExpr); ok {
					t = se.X
				}
				if id, ok := t.(*ast.Ident); ok {
					n.RecvType = id.Name
					n.Name = id.Name + "." + fd.Name.Name
				}
				if len(fd.Recv.List[0].Names) == 1 {
					n.RecvName = fd.Recv.List[0].Names[0].Name
				}
			}
			if _, dead := spec.DeadRecv[n.RecvType]; dead {
				continue
			}
			if _, dup := pa.nodes[n.Name]; dup {
				pa.errs = append(pa.errs, "DUPLICATE_FUNCTION_"+strings.ReplaceAll(n.Name, ".", "_"))
				continue
			}
			if _, ok := spec.Init[n.Name]; ok {
				n.Init = true
			}
			pa.nodes[n.Name] = n
			pa.order = append(pa.order, n.Name)
			pa.collectLits(n, fd.Body)
		}
	}
	pa.prepass(files)
	for name, allow := range spec.Internal {
		n := pa.nodes[name]
		if n == nil {
			pa.errs = append(pa.errs, "UNKNOWN_INTERNAL_METHOD_"+strings.ReplaceAll(name, ".", "_"))
			continue
		}
		if bad := outsideUses(spec.Dir, name[strings.Index(name, ".")+1:], allow); len(bad) > 0 {
			pa.errs = append(pa.errs, "INTERNAL_METHOD_CALLED_FROM_"+strings.NewReplacer("/", "_", ".", "_", ":", "_").Replace(bad[0]))
			continue
		}
		n.Internal = true
	}
	for name, allow := range spec.Unreachable {
		n := pa.nodes[name]
		if n == nil {
			pa.errs = append(pa.errs, "UNKNOWN_UNREACHABLE_METHOD_"+strings.ReplaceAll(name, ".", "_"))
			continue
		}
		if bad := outsideUses(spec.Dir, name[strings.Index(name, ".")+1:], allow); len(bad) > 0 {
			pa.errs = append(pa.errs, "UNREACHABLE_METHOD_CALLED_FROM_"+strings.NewReplacer("/", "_", ".", "_", ":", "_").Replace(bad[0]))
			continue
		}
		n.Dead = true // (in-package call sites are checked after the analysis: deadCalled)
	}
	for name := range spec.Init {
		if pa.nodes[name] == nil {
			pa.errs = append(pa.errs, "UNKNOWN_INIT_FUNCTION_"+strings.ReplaceAll(name, ".", "_"))
		}
	}
	// query entry points
	for iface, impl := range spec.Ifaces {
		tn, ok := scope.Lookup(iface).(*types.TypeName)
		if !ok {
			pa.errs = append(pa.errs, "UNKNOWN_INTERFACE_"+iface)
			continue
		}
		it, ok := tn.Type().Underlying().(*types.Interface)
		if !ok {
			pa.errs = append(pa.errs, "UNKNOWN_INTERFACE_"+iface)
			continue
		}
		for i := 0; i < it.NumMethods(); i++ {
			m := it.Method(i).Name()
			if _, skip := spec.NotRoots[m]; skip {
				continue
			}
			pa.addRoot(impl + "." + m)
		}
	}
	for _, r := range spec.Roots {
		pa.addRoot(r)
	}
	return pa, nil
}

// addRoot marks Recv.Method (or the promoted method of an embedded struct of the package) as a query entry point.
func (pa *pkgAnalysis) addRoot(name string) bool {
	if pa.roots[name] {
		return false
	}
	if pa.nodes[name] == nil {
		// promoted through embedding (PairV2 embeds *pairData and PairKey): look the method up on the embedded types
		dot := strings.Index(name, ".")
		found := false
		if dot > 0 {
			recv, m := name[:dot], name[dot+1:]
			for v, sn := range pa.structOf {
				if sn == recv && v.Embedded() {
					t := v.Type()
					if p, ok := t.(*types.Pointer); ok {
						t = p.Elem()
					}
					if nt, ok := t.(*types.Named); ok && pa.nodes[nt.Obj().Name()+"."+m] != nil {
						pa.roots[name] = true
						pa.roots[nt.Obj().Name()+"."+m] = true
						found = true
					}
				}
			}
		}
		if !found {
			pa.errs = append(pa.errs, "UNKNOWN_ENTRY_POINT_"+strings.ReplaceAll(name, ".", "_"))
		}
		return found
	}
	pa.roots[name] = true
	return true
}

var repoFilesCache map[string][]string

// repoLines: the lines of every non-test .go file of the repo (vendor-less tree), by relative path
func repoLines() map[string][]string {
	if repoFilesCache != nil {
		return repoFilesCache
	}
	repoFilesCache = map[string][]string{}
	filepath.Walk(repo, func(path string, info os.FileInfo, err error) error {
		if err != nil {
			return nil
		}
		if info.IsDir() {
			if strings.HasPrefix(info.Name(), ".") && path != repo {
				return filepath.SkipDir
			}
			return nil
		}
		if !strings.HasSuffix(path, ".go") || strings.HasSuffix(path, "_test.go") {
			return nil
		}
		f, err := os.Open(path)
		if err != nil {
			return nil
		}
		defer f.Close()
		rel, _ := filepath.Rel(repo, path)
		sc := bufio.NewScanner(f)
		sc.Buffer(make([]byte, 1<<20), 1<<24)
		for sc.Scan() {
			repoFilesCache[rel] = append(repoFilesCache[rel], sc.Text())
		}
		return nil
	})
	return repoFilesCache
}

// outsideUses: occurrences of ".method(" in non-test files outside dir whose prefix does not match allow
func outsideUses(dir, method, allow string) []string {
	var bad []string
	var re *regexp.Regexp
	if allow != "" {
		re = regexp.MustCompile(allow)
	}
	for rel, lines := range repoLines() {
		if filepath.Dir(rel) == dir {
			continue
		}
		for i, l := range lines {
			rest := l
			off := 0
			for {
				k := strings.Index(rest, "."+method+"(")
				if k < 0 {
					break
				}
				end := off + k + len(method) + 2
				if re == nil || !re.MatchString(rel+"\t"+l[:end]) { // the regexp sees "path<TAB>line up to the call"
					bad = append(bad, fmt.Sprintf("%s:%d", rel, i+1))
				}
				rest = rest[k+1:]
				off += k + 1
			}
		}
	}
	sort.Strings(bad)
	return bad
}

// checkExportPrivate: no state export is taken from a shared state by the node's own services
func checkExportPrivate() []string {
	var errs []string
	for rel, lines := range repoLines() {
		d := filepath.Dir(rel)
		if !(strings.HasPrefix(d, "api") || strings.HasPrefix(d, "cli") || d == "coreV2/minter") || strings.HasPrefix(filepath.Base(rel), "verif_") {
			continue
		}
		for i, l := range lines {
			if strings.Contains(l, ".Export(") && !strings.Contains(l, "Tree().Export(") && !strings.Contains(l, "store.Export(") {
				errs = append(errs, fmt.Sprintf("EXPORT_CALLED_ON_A_SERVICE_PATH_%s_%d", strings.NewReplacer("/", "_", ".", "_").Replace(rel), i+1))
			}
		}
	}
	sort.Strings(errs)
	return errs
}

// hasConjunct: e is c, or a && chain one of whose operands is c
func hasConjunct(e ast.Expr, c string) bool {
	if exprStr(e) == c {
		return true
	}
	if pe, ok := e.(*ast.ParenExpr); ok {
		return hasConjunct(pe.X, c)
	}
	if be, ok := e.(*ast.BinaryExpr); ok && be.Op == token.LAND {
		return hasConjunct(be.X, c) || hasConjunct(be.Y, c)
	}
	return false
}

// checkHistoricalOnly: see lockPkg.HistoricalOnly
func checkHistoricalOnly(spec *lockPkg) []string {
	var errs []string
	if len(spec.HistoricalOnly) == 0 {
		return nil
	}
	want := map[string]bool{}
	for _, m := range spec.HistoricalOnly {
		want[m] = true
	}
	for rel := range repoLines() {
		d := filepath.Dir(rel)
		if d == spec.Dir || rel == "coreV2/state/state.go" {
			continue
		}
		hit := false
		for _, l := range repoLines()[rel] {
			for m := range want {
				if strings.Contains(l, "."+m+"(") {
					hit = true
				}
			}
		}
		if !hit {
			continue
		}
		fset := token.NewFileSet()
		f, err := parser.ParseFile(fset, filepath.Join(repo, rel), nil, 0)
		if err != nil {
			errs = append(errs, "UNPARSABLE_"+strings.NewReplacer("/", "_", ".", "_").Replace(rel))
			continue
		}
		var stack []ast.Node
		ast.Inspect(f, func(n ast.Node) bool {
			if n == nil {
				stack = stack[:len(stack)-1]
				return true
			}
			stack = append(stack, n)
			ce, ok := n.(*ast.CallExpr)
			if !ok {
				return true
			}
			sel, ok := ce.Fun.(*ast.SelectorExpr)
			if !ok || !want[sel.Sel.Name] {
				return true
			}
			guarded := false
			for i := len(stack) - 2; i >= 0; i-- {
				if is, ok := stack[i].(*ast.IfStmt); ok && hasConjunct(is.Cond, "req.Height != 0") {
					// the call must be in the then-branch
					if i+1 < len(stack) && stack[i+1] == ast.Node(is.Body) {
						guarded = true
					}
				}
			}
			if !(guarded && d == "api/v2/service") {
				errs = append(errs, fmt.Sprintf("%s_CALLED_ON_A_SHARED_STATE_%s_%d", sel.Sel.Name, strings.NewReplacer("/", "_", ".", "_").Replace(rel), fset.Position(ce.Pos()).Line))
			}
			return true
		})
	}
	sort.Strings(errs)
	return errs
}

// prepass: (1) what func-typed struct fields may point to, (2) locals holding a fresh object,
// (3) the shape of the view methods
func (pa *pkgAnalysis) prepass(files []*ast.File) {
	w := &walker{pa: pa}
	for _, f := range files {
		ast.Inspect(f, func(n ast.Node) bool {
			switch x := n.(type) {
			case *ast.CompositeLit:
				for _, el := range x.Elts {
					if kv, ok := el.(*ast.KeyValueExpr); ok {
						if k, ok := kv.Key.(*ast.Ident); ok {
							w.bindFuncField(k.Name, kv.Value)
						}
					}
				}
			case *ast.AssignStmt:
				if x.Tok == token.ASSIGN && len(x.Lhs) == len(x.Rhs) {
					for i, l := range x.Lhs {
						if ls, ok := l.(*ast.SelectorExpr); ok {
							if sl := pa.info.Selections[ls]; sl != nil && sl.Kind() == types.FieldVal {
								if _, isFunc := sl.Type().Underlying().(*types.Signature); isFunc {
									w.bindFuncField(ls.Sel.Name, x.Rhs[i])
								}
							}
						}
					}
				}
				if x.Tok != token.DEFINE || len(x.Lhs) != len(x.Rhs) {
					return true
				}
				for i, l := range x.Lhs {
					id, ok := l.(*ast.Ident)
					if !ok {
						continue
					}
					r := x.Rhs[i]
					if u, ok := r.(*ast.UnaryExpr); ok && u.Op == token.AND {
						r = u.X
					}
					isNew := false
					if _, ok := r.(*ast.CompositeLit); ok {
						isNew = true
					}
					if ce, ok := r.(*ast.CallExpr); ok {
						if fid, ok := ce.Fun.(*ast.Ident); ok && fid.Name == "new" {
							isNew = true
						}
					}
					if isNew {
						if obj := pa.info.Defs[id]; obj != nil {
							pa.fresh[obj] = true
						}
					}
				}
			}
			return true
		})
	}
	// a variable that is assigned again anywhere is not reliably fresh
	for _, f := range files {
		ast.Inspect(f, func(n ast.Node) bool {
			if as, ok := n.(*ast.AssignStmt); ok && as.Tok != token.DEFINE {
				for _, l := range as.Lhs {
					if id, ok := l.(*ast.Ident); ok {
						if obj := pa.info.Uses[id]; obj != nil {
							delete(pa.fresh, obj)
						}
					}
				}
			}
			return true
		})
	}
	// close the aliases: F copied from G may hold whatever G may hold
	for round := 0; round < 4; round++ {
		for f, srcs := range pa.fnAlias {
			for _, g := range srcs {
				for _, t := range pa.fnField[g] {
					dup := false
					for _, x := range pa.fnField[f] {
						if x == t {
							dup = true
						}
					}
					if !dup {
						pa.fnField[f] = append(pa.fnField[f], t)
					}
				}
			}
		}
	}
	for name, fields := range pa.spec.Views {
		n := pa.nodes[name]
		if n == nil {
			pa.errs = append(pa.errs, "UNKNOWN_VIEW_METHOD_"+strings.ReplaceAll(name, ".", "_"))
			continue
		}
		if fields == nil {
			// must be `return r.<view>()`
			ok := false
			if len(n.Body.List) == 1 {
				if rs, isRet := n.Body.List[0].(*ast.ReturnStmt); isRet && len(rs.Results) == 1 {
					if ce, isCall := rs.Results[0].(*ast.CallExpr); isCall && len(ce.Args) == 0 {
						if sel, isSel := ce.Fun.(*ast.SelectorExpr); isSel && exprStr(sel.X) == n.RecvName {
							if _, isView := pa.spec.Views[n.RecvType+"."+sel.Sel.Name]; isView {
								ok = true
							}
						}
					}
				}
			}
			if !ok {
				pa.errs = append(pa.errs, "VIEW_METHOD_SHAPE_"+strings.ReplaceAll(name, ".", "_"))
			}
			continue
		}
		copied := map[string]bool{}
		ast.Inspect(n.Body, func(x ast.Node) bool {
			if cl, ok := x.(*ast.CompositeLit); ok {
				for _, el := range cl.Elts {
					if kv, ok := el.(*ast.KeyValueExpr); ok {
						if k, ok := kv.Key.(*ast.Ident); ok && exprStr(kv.Value) == n.RecvName+"."+k.Name {
							copied[k.Name] = true
						}
					}
				}
			}
			return true
		})
		for _, f := range fields {
			if !copied[f] {
				pa.errs = append(pa.errs, "VIEW_METHOD_SHAPE_"+strings.ReplaceAll(name, ".", "_")+"_"+f)
			}
		}
	}
}

// implementers: the struct types of the package whose pointer type implements the named interface
func (pa *pkgAnalysis) implementers(iface string) map[string]bool {
	if pa.implCache == nil {
		pa.implCache = map[string]map[string]bool{}
	}
	if m, ok := pa.implCache[iface]; ok {
		return m
	}
	m := map[string]bool{}
	pa.implCache[iface] = m
	if impl, ok := pa.spec.Ifaces[iface]; ok {
		m[impl] = true
	}
	itn, ok := pa.scope.Lookup(iface).(*types.TypeName)
	if !ok {
		return m
	}
	it, ok := itn.Type().Underlying().(*types.Interface)
	if !ok {
		return m
	}
	for _, name := range pa.scope.Names() {
		tn, ok := pa.scope.Lookup(name).(*types.TypeName)
		if !ok {
			continue
		}
		if _, isStruct := tn.Type().Underlying().(*types.Struct); !isStruct {
			continue
		}
		if _, dead := pa.spec.DeadRecv[name]; dead {
			continue
		}
		if types.Implements(types.NewPointer(tn.Type()), it) || types.Implements(tn.Type(), it) {
			m[name] = true
		}
	}
	return m
}

// normBase removes the view-method calls from a base expression: p.reverse().orders -> p.orders
func (pa *pkgAnalysis) normBase(b string) string {
	for name := range pa.spec.Views {
		m := name[strings.Index(name, ".")+1:]
		b = strings.ReplaceAll(b, "."+m+"()", "")
	}
	return b
}

// collectLits creates a node per function literal (nested literals included), numbered in source order.
func (pa *pkgAnalysis) collectLits(parent *node, body ast.Node) {
	top := parent
	for top.Parent != nil {
		top = top.Parent
	}
	ast.Inspect(body, func(n ast.Node) bool {
		fl, ok := n.(*ast.FuncLit)
		if !ok {
			return true
		}
		top.nlits++
		ln := &node{Name: fmt.Sprintf("%s#%d", top.Name, top.nlits), Body: fl.Body, RecvName: top.RecvName, RecvType: top.RecvType, File: parent.File, Parent: parent, Init: top.Init}
		pa.nodes[ln.Name] = ln
		pa.order = append(pa.order, ln.Name)
		pa.litOf[fl] = ln
		pa.collectLits(ln, fl.Body)
		return false
	})
}

// ---- the walker ---------------------------------------------------------------------------------

type collector struct {
	loop bool
	sets []lockSet
}

type walker struct {
	pa       *pkgAnalysis
	n        *node
	stack    []*collector
	acc      []accessRec
	calls    []callRec
	acqs     []acqRec
	inRet    bool
	serial   int
	relSince map[string]bool // explicitly released since the last acquisition (for the double-release check)
	leaks    []string        // "lock" held at a return / at the end, acquired here, no release pending
	doubles  []string        // "lock" released although a deferred release is pending, or released twice in a row
}

func exprStr(e ast.Expr) string { return types.ExprString(e) }

// selBase: the base expression of a field selection, with the embedded fields an implicit selection
// goes through made explicit (p.Reserve0 on a PairV2 is p.pairData.Reserve0)
func (pa *pkgAnalysis) selBase(sel *ast.SelectorExpr) string {
	base := pa.normBase(exprStr(sel.X))
	s := pa.info.Selections[sel]
	if s == nil || len(s.Index()) < 2 {
		return base
	}
	t := s.Recv()
	for _, idx := range s.Index()[:len(s.Index())-1] {
		if p, ok := t.(*types.Pointer); ok {
			t = p.Elem()
		}
		st, ok := t.Underlying().(*types.Struct)
		if !ok || idx >= st.NumFields() {
			return base + ".?"
		}
		base += "." + st.Field(idx).Name()
		t = st.Field(idx).Type()
	}
	return base
}

// lockOp recognises x.Lock() / x.RLock() / x.Unlock() / x.RUnlock() on a known mutex field.
func (w *walker) lockOp(e ast.Expr) (id, base, op string, ok bool) {
	ce, isCall := e.(*ast.CallExpr)
	if !isCall || len(ce.Args) != 0 {
		return
	}
	sel, isSel := ce.Fun.(*ast.SelectorExpr)
	if !isSel {
		return
	}
	switch sel.Sel.Name {
	case "Lock", "RLock", "Unlock", "RUnlock":
	default:
		return
	}
	msel, isSel := sel.X.(*ast.SelectorExpr)
	if !isSel {
		return
	}
	s := w.pa.info.Selections[msel]
	if s == nil {
		return
	}
	v, isVar := s.Obj().(*types.Var)
	if !isVar {
		return
	}
	mid, known := w.pa.mutexes[v]
	if !known {
		return
	}
	return mid, w.pa.selBase(msel), sel.Sel.Name, true
}

func (w *walker) branch(held lockSet) {
	// break / continue: feed every enclosing collector up to and including the nearest loop
	for i := len(w.stack) - 1; i >= 0; i-- {
		w.stack[i].sets = append(w.stack[i].sets, held.clone())
		if w.stack[i].loop {
			break
		}
	}
}

// atExit: the function returns here with these locks held
func (w *walker) atExit(held lockSet) {
	for _, l := range held {
		if l.Own && l.Def == 0 {
			w.leaks = append(w.leaks, l.ID)
		}
	}
}

func (w *walker) stmts(list []ast.Stmt, in lockSet) (lockSet, bool) {
	cur := in
	for _, s := range list {
		var term bool
		cur, term = w.stmt(s, cur)
		if term {
			return cur, true
		}
	}
	return cur, false
}

func isPanicCall(e ast.Expr) bool {
	ce, ok := e.(*ast.CallExpr)
	if !ok {
		return false
	}
	if id, ok := ce.Fun.(*ast.Ident); ok && id.Name == "panic" {
		return true
	}
	return false
}

func (w *walker) stmt(s ast.Stmt, in lockSet) (lockSet, bool) {
	switch x := s.(type) {
	case nil:
		return in, false
	case *ast.ExprStmt:
		if id, base, op, ok := w.lockOp(x.X); ok {
			out := in.clone()
			key := id + "@" + base
			if w.relSince == nil {
				w.relSince = map[string]bool{}
			}
			switch op {
			case "Lock", "RLock":
				w.acqs = append(w.acqs, acqRec{ID: id, Base: base, W: op == "Lock", Line: w.pa.fset.Position(x.Pos()).Line, Held: in.clone()})
				if i := out.find(id, base); i >= 0 {
					out = append(out[:i], out[i+1:]...)
				}
				w.serial++
				out = append(out, heldLock{ID: id, Base: base, W: op == "Lock", Own: true, Acq: w.serial})
				w.relSince[key] = false
			default:
				if i := out.find(id, base); i >= 0 {
					if out[i].Def == 1 {
						w.doubles = append(w.doubles, id) // the deferred Unlock will release it again
					}
					out = append(out[:i], out[i+1:]...)
				} else if w.relSince[key] {
					w.doubles = append(w.doubles, id)
				}
				w.relSince[key] = true
			}
			return out, false
		}
		w.expr(x.X, in, false)
		return in, isPanicCall(x.X)
	case *ast.DeferStmt:
		if id, base, op, ok := w.lockOp(x.Call); ok && (op == "Unlock" || op == "RUnlock") {
			out := in.clone()
			if i := out.find(id, base); i >= 0 {
				out[i].Def = 1
			}
			return out, false // released when the function returns
		}
		out := in
		if fl, ok := x.Call.Fun.(*ast.FuncLit); ok {
			// defer func() { ... x.Unlock() ... }(): a (possibly conditional) release at the end
			out = in.clone()
			ast.Inspect(fl.Body, func(nn ast.Node) bool {
				if es, ok := nn.(*ast.ExprStmt); ok {
					if id, base, op, ok := w.lockOp(es.X); ok && (op == "Unlock" || op == "RUnlock") {
						if i := out.find(id, base); i >= 0 && out[i].Def == 0 {
							out[i].Def = 2
						}
					}
				}
				return true
			})
		}
		w.deferred(x.Call, in)
		return out, false
	case *ast.GoStmt:
		w.deferred(x.Call, in)
		return in, false
	case *ast.AssignStmt:
		for i, r := range x.Rhs {
			if len(x.Lhs) == len(x.Rhs) && x.Tok == token.ASSIGN {
				// x.F = recv.method: a binding of the func-typed field F (prepass), not a use as a value
				if ls, ok := x.Lhs[i].(*ast.SelectorExpr); ok {
					if sl := w.pa.info.Selections[ls]; sl != nil && sl.Kind() == types.FieldVal {
						if _, isFunc := sl.Type().Underlying().(*types.Signature); isFunc {
							if rs, ok := r.(*ast.SelectorExpr); ok {
								if s := w.pa.info.Selections[rs]; s != nil && s.Kind() == types.MethodVal {
									w.expr(rs.X, in, false)
									continue
								}
							}
						}
					}
				}
			}
			w.expr(r, in, false)
		}
		for _, l := range x.Lhs {
			w.expr(l, in, true)
		}
		return in, false
	case *ast.IncDecStmt:
		w.expr(x.X, in, true)
		return in, false
	case *ast.DeclStmt:
		if gd, ok := x.Decl.(*ast.GenDecl); ok {
			for _, sp := range gd.Specs {
				if vs, ok := sp.(*ast.ValueSpec); ok {
					for _, v := range vs.Values {
						w.expr(v, in, false)
					}
				}
			}
		}
		return in, false
	case *ast.ReturnStmt:
		w.inRet = true
		for _, r := range x.Results {
			w.expr(r, in, false)
		}
		w.inRet = false
		w.atExit(in)
		return in, true
	case *ast.BranchStmt:
		switch x.Tok {
		case token.GOTO:
			w.n.Goto = true
		case token.FALLTHROUGH:
			return in, false
		default:
			if x.Label != nil {
				for _, c := range w.stack {
					c.sets = append(c.sets, in.clone())
				}
			} else {
				w.branch(in)
			}
		}
		return in, true
	case *ast.BlockStmt:
		return w.stmts(x.List, in)
	case *ast.LabeledStmt:
		return w.stmt(x.Stmt, in)
	case *ast.IfStmt:
		cur, _ := w.stmt(x.Init, in)
		w.expr(x.Cond, cur, false)
		o1, t1 := w.stmts(x.Body.List, cur)
		var o2 lockSet
		t2 := false
		if x.Else != nil {
			o2, t2 = w.stmt(x.Else, cur)
		} else {
			o2 = cur
		}
		switch {
		case t1 && t2:
			return cur, true
		case t1:
			return o2, false
		case t2:
			return o1, false
		}
		return meet(o1, o2), false
	case *ast.ForStmt:
		cur, _ := w.stmt(x.Init, in)
		return w.loop(cur, func(h lockSet) (lockSet, bool) {
			if x.Cond != nil {
				w.expr(x.Cond, h, false)
			}
			o, t := w.stmts(x.Body.List, h)
			if !t {
				o, _ = w.stmt(x.Post, o)
			}
			return o, t
		}), false
	case *ast.RangeStmt:
		return w.loop(in, func(h lockSet) (lockSet, bool) {
			w.expr(x.X, h, false)
			if x.Key != nil {
				w.expr(x.Key, h, true)
			}
			if x.Value != nil {
				w.expr(x.Value, h, true)
			}
			return w.stmts(x.Body.List, h)
		}), false
	case *ast.SwitchStmt:
		cur, _ := w.stmt(x.Init, in)
		if x.Tag != nil {
			w.expr(x.Tag, cur, false)
		}
		return w.clauses(x.Body, cur), false
	case *ast.TypeSwitchStmt:
		cur, _ := w.stmt(x.Init, in)
		cur, _ = w.stmt(x.Assign, cur)
		return w.clauses(x.Body, cur), false
	case *ast.SelectStmt:
		return w.clauses(x.Body, in), false
	case *ast.SendStmt:
		w.expr(x.Chan, in, false)
		w.expr(x.Value, in, false)
		return in, false
	case *ast.EmptyStmt:
		return in, false
	}
	w.n.Goto = true // a statement kind this analysis does not know: nothing is attributed in this function
	return in, false
}

// loop: head = entry ∩ (locks after the body) ∩ (locks at every continue/break); iterate to the fixpoint
func (w *walker) loop(entry lockSet, body func(lockSet) (lockSet, bool)) lockSet {
	head := entry
	for iter := 0; iter < 8; iter++ {
		accMark, callMark := len(w.acc), len(w.calls)
		c := &collector{loop: true}
		w.stack = append(w.stack, c)
		out, term := body(head)
		w.stack = w.stack[:len(w.stack)-1]
		next := head
		if !term {
			next = meet(next, out)
		}
		for _, s := range c.sets {
			next = meet(next, s)
		}
		if sameSet(next, head) {
			return head
		}
		// not stable: forget what this pass recorded and repeat with the smaller set
		w.acc, w.calls = w.acc[:accMark], w.calls[:callMark]
		head = next
	}
	w.n.Goto = true
	return nil
}

func (w *walker) clauses(body *ast.BlockStmt, in lockSet) lockSet {
	c := &collector{}
	w.stack = append(w.stack, c)
	var outs []lockSet
	hasDefault := false
	for _, cl := range body.List {
		var list []ast.Stmt
		switch cc := cl.(type) {
		case *ast.CaseClause:
			if cc.List == nil {
				hasDefault = true
			}
			for _, e := range cc.List {
				w.expr(e, in, false)
			}
			list = cc.Body
		case *ast.CommClause:
			if cc.Comm == nil {
				hasDefault = true
			} else {
				w.stmt(cc.Comm, in)
			}
			list = cc.Body
		}
		o, t := w.stmts(list, in)
		if !t {
			outs = append(outs, o)
		}
	}
	w.stack = w.stack[:len(w.stack)-1]
	if !hasDefault {
		outs = append(outs, in)
	}
	outs = append(outs, c.sets...)
	if len(outs) == 0 {
		return in // every clause returns
	}
	res := outs[0]
	for _, o := range outs[1:] {
		res = meet(res, o)
	}
	return res
}

// deferred: the call of a defer/go statement: its arguments are evaluated now, the call itself runs under no lock
func (w *walker) deferred(call *ast.CallExpr, in lockSet) {
	for _, a := range call.Args {
		w.expr(a, in, false)
	}
	if fl, ok := call.Fun.(*ast.FuncLit); ok {
		if ln := w.pa.litOf[fl]; ln != nil {
			empty := lockSet{}
			ln.LitHeld = &empty
			w.calls = append(w.calls, callRec{Callee: ln.Name, Held: nil})
		}
		return
	}
	w.call(call, nil)
}

// tracked returns the spec if sel selects a tracked field.
func (w *walker) tracked(sel *ast.SelectorExpr) *fieldSpec {
	s := w.pa.info.Selections[sel]
	if s == nil {
		return nil
	}
	v, ok := s.Obj().(*types.Var)
	if !ok {
		return nil
	}
	return w.pa.fields[v]
}

// isFresh: the expression is rooted at a local variable that holds an object created in this function
func (w *walker) isFresh(e ast.Expr) bool {
	root := e
	for {
		if se, ok := root.(*ast.SelectorExpr); ok {
			root = se.X
			continue
		}
		break
	}
	if id, ok := root.(*ast.Ident); ok {
		if obj := w.pa.info.Uses[id]; obj != nil && w.pa.fresh[obj] {
			return true
		}
	}
	return false
}

func (w *walker) record(sel *ast.SelectorExpr, fs *fieldSpec, held lockSet, write bool) {
	fresh := w.isFresh(sel.X)
	w.acc = append(w.acc, accessRec{Fresh: fresh, File: w.n.File, Func: w.n.Name, Line: w.pa.fset.Position(sel.Pos()).Line, Field: fs.Struct + "." + fs.Field,
		Base: w.pa.selBase(sel), Write: write, Held: held.clone(), spec: fs})
}

// expr walks an expression; write: the expression is assigned to / incremented / deleted from.
func (w *walker) expr(e ast.Expr, held lockSet, write bool) {
	switch x := e.(type) {
	case nil:
		return
	case *ast.SelectorExpr:
		if fs := w.tracked(x); fs != nil {
			w.record(x, fs, held, write)
		} else if s := w.pa.info.Selections[x]; s != nil && s.Kind() == types.MethodVal && !write {
			// a method value (not called here): unknown call sites
			if name := w.methodName(s); name != "" && w.pa.nodes[name] != nil {
				w.pa.nodes[name].AsValue = true
				w.calls = append(w.calls, callRec{Callee: name, Recv: "", Held: nil})
			}
		}
		w.expr(x.X, held, false)
	case *ast.Ident:
		if f, ok := w.pa.info.Uses[x].(*types.Func); ok && f.Pkg() != nil && w.pa.nodes[f.Name()] != nil && f.Type().(*types.Signature).Recv() == nil {
			w.pa.nodes[f.Name()].AsValue = true
			w.calls = append(w.calls, callRec{Callee: f.Name(), Held: nil})
		}
	case *ast.IndexExpr:
		// x.f[k] = v writes the map/slice x.f; x.f[k] reads it
		w.expr(x.X, held, write)
		w.expr(x.Index, held, false)
	case *ast.SliceExpr:
		w.expr(x.X, held, write)
		w.expr(x.Low, held, false)
		w.expr(x.High, held, false)
		w.expr(x.Max, held, false)
	case *ast.StarExpr:
		w.expr(x.X, held, write)
	case *ast.ParenExpr:
		w.expr(x.X, held, write)
	case *ast.UnaryExpr:
		if x.Op == token.AND {
			w.expr(x.X, held, true) // address taken: whoever gets the pointer may write
		} else {
			w.expr(x.X, held, false)
		}
	case *ast.BinaryExpr:
		w.expr(x.X, held, false)
		w.expr(x.Y, held, false)
	case *ast.KeyValueExpr:
		w.expr(x.Key, held, false)
		w.expr(x.Value, held, false)
	case *ast.CompositeLit:
		for _, el := range x.Elts {
			if kv, ok := el.(*ast.KeyValueExpr); ok {
				// F: s.method / F: s.maker(...)  — remember what a func-typed struct field may point to
				if vs, ok := kv.Value.(*ast.SelectorExpr); ok {
					if s := w.pa.info.Selections[vs]; s != nil && s.Kind() == types.MethodVal {
						// F: s.method — every call through the field F is a known call site (prepass)
						w.expr(vs.X, held, false)
						continue
					}
					if fs := w.tracked(vs); fs != nil && fs.Mut {
						// copying the pointer into another struct creates an alias, it does not touch the object;
						// the alias is itself a tracked field of the new struct
						w.expr(vs.X, held, false)
						continue
					}
				}
				w.expr(kv.Value, held, false)
			} else {
				w.expr(el, held, false)
			}
		}
	case *ast.TypeAssertExpr:
		w.expr(x.X, held, false)
	case *ast.FuncLit:
		ln := w.pa.litOf[x]
		if ln == nil {
			return
		}
		if w.inRet {
			ln.Returned = true
			empty := lockSet{}
			ln.LitHeld = &empty
			return
		}
		// stored in a variable or field: it may run later, under no lock
		empty := lockSet{}
		ln.LitHeld = &empty
		w.calls = append(w.calls, callRec{Callee: ln.Name, Held: nil})
	case *ast.CallExpr:
		w.call(x, held)
	}
}

func (w *walker) methodName(s *types.Selection) string {
	f, ok := s.Obj().(*types.Func)
	if !ok {
		return ""
	}
	sig, ok := f.Type().(*types.Signature)
	if !ok || sig.Recv() == nil {
		return ""
	}
	t := sig.Recv().Type()
	if p, ok := t.(*types.Pointer); ok {
		t = p.Elem()
	}
	nt, ok := t.(*types.Named)
	if !ok {
		return ""
	}
	return nt.Obj().Name() + "." + f.Name()
}

func (w *walker) bindFuncField(field string, val ast.Expr) {
	add := func(name string) {
		for _, x := range w.pa.fnField[field] {
			if x == name {
				return
			}
		}
		w.pa.fnField[field] = append(w.pa.fnField[field], name)
	}
	switch v := val.(type) {
	case *ast.SelectorExpr:
		if s := w.pa.info.Selections[v]; s != nil && s.Kind() == types.MethodVal {
			if name := w.methodName(s); name != "" && w.pa.nodes[name] != nil {
				add(name)
			}
		} else if s != nil && s.Kind() == types.FieldVal {
			if _, isFunc := s.Type().Underlying().(*types.Signature); isFunc {
				w.pa.fnAlias[field] = append(w.pa.fnAlias[field], v.Sel.Name)
			}
		}
	case *ast.CallExpr:
		// a maker: the field may hold any literal the maker returns
		if sel, ok := v.Fun.(*ast.SelectorExpr); ok {
			if s := w.pa.info.Selections[sel]; s != nil && s.Kind() == types.MethodVal {
				if name := w.methodName(s); name != "" {
					for _, nn := range w.pa.order {
						if strings.HasPrefix(nn, name+"#") {
							add(nn)
						}
					}
				}
			}
		}
	case *ast.FuncLit:
		if ln := w.pa.litOf[v]; ln != nil {
			add(ln.Name)
		}
	}
}

func (w *walker) call(ce *ast.CallExpr, held lockSet) {
	mark := len(w.calls)
	defer func() {
		for i := mark; i < len(w.calls); i++ {
			if w.calls[i].Pos == 0 {
				w.calls[i].Pos = int(ce.Pos())
			}
		}
	}()
	// builtins that write their first argument
	if id, ok := ce.Fun.(*ast.Ident); ok {
		switch id.Name {
		case "delete":
			if len(ce.Args) == 2 {
				w.expr(ce.Args[0], held, true)
				w.expr(ce.Args[1], held, false)
				return
			}
		case "copy":
			if len(ce.Args) == 2 {
				w.expr(ce.Args[0], held, true)
				w.expr(ce.Args[1], held, false)
				return
			}
		}
	}
	var argStrs []string
	for _, a := range ce.Args {
		argStrs = append(argStrs, w.pa.normBase(exprStr(a)))
	}
	// atomic.F(&x.f, ...) on a field declared Atomic: synchronised by the hardware, not a table access
	if fsel, ok := ce.Fun.(*ast.SelectorExpr); ok && len(ce.Args) > 0 {
		if pk, ok := fsel.X.(*ast.Ident); ok && pk.Name == "atomic" {
			if u, ok := ce.Args[0].(*ast.UnaryExpr); ok && u.Op == token.AND {
				if as, ok := u.X.(*ast.SelectorExpr); ok {
					if fs := w.tracked(as); fs != nil && fs.Atomic {
						w.expr(as.X, held, false)
						for _, a := range ce.Args[1:] {
							w.expr(a, held, false)
						}
						return
					}
				}
			}
		}
	}
	// arguments; a literal argument runs in place, under the current locks
	for _, a := range ce.Args {
		if fl, ok := a.(*ast.FuncLit); ok {
			if ln := w.pa.litOf[fl]; ln != nil {
				h := held.clone()
				ln.LitHeld = &h
				w.calls = append(w.calls, callRec{Callee: ln.Name, Recv: "", Held: held.clone()})
			}
			continue
		}
		w.expr(a, held, false)
	}
	switch f := ce.Fun.(type) {
	case *ast.FuncLit: // func(){...}() in place
		if ln := w.pa.litOf[f]; ln != nil {
			h := held.clone()
			ln.LitHeld = &h
			w.calls = append(w.calls, callRec{Callee: ln.Name, Held: held.clone()})
		}
	case *ast.Ident:
		if fn, ok := w.pa.info.Uses[f].(*types.Func); ok && w.pa.nodes[fn.Name()] != nil {
			w.calls = append(w.calls, callRec{Callee: fn.Name(), Args: argStrs, Held: held.clone()})
		}
		// a local variable holding a literal was already linked when the literal was seen
	case *ast.SelectorExpr:
		s := w.pa.info.Selections[f]
		switch {
		case s != nil && s.Kind() == types.MethodVal:
			name := w.methodName(s)
			// a mutator called on a tracked pointer field writes the object
			if inner, ok := f.X.(*ast.SelectorExpr); ok {
				if fs := w.tracked(inner); fs != nil {
					w.record(inner, fs, held, fs.Mut && bigMutators[f.Sel.Name])
					w.expr(inner.X, held, false)
					if name != "" && w.pa.nodes[name] != nil {
						w.calls = append(w.calls, callRec{Callee: name, Recv: w.pa.normBase(exprStr(f.X)), Args: argStrs, Held: held.clone()})
					}
					return
				}
			}
			if name != "" && w.pa.nodes[name] != nil {
				w.calls = append(w.calls, callRec{Callee: name, Recv: w.pa.normBase(exprStr(f.X)), Args: argStrs, Held: held.clone(), FreshRecv: w.isFresh(f.X)})
			} else if name != "" && w.pa.ifaces[name[:strings.Index(name, ".")]] {
				// a call through an interface of this package: the method of every type of the package that
				// implements the interface may run (of every type with a method of that name, if the type
				// checker finds no implementer: signatures mention unresolved imports)
				impls := w.pa.implementers(name[:strings.Index(name, ".")])
				for _, nn := range w.pa.order {
					cn := w.pa.nodes[nn]
					if cn.Parent == nil && cn.RecvType != "" && nn == cn.RecvType+"."+f.Sel.Name && (len(impls) == 0 || impls[cn.RecvType]) {
						w.calls = append(w.calls, callRec{Callee: nn, Recv: w.pa.normBase(exprStr(f.X)), Args: argStrs, Held: held.clone()})
					}
				}
			} else if name != "" {
				if _, dead := w.pa.spec.DeadRecv[name[:strings.Index(name, ".")]]; dead {
					w.pa.errs = append(w.pa.errs, "CALL_INTO_CODE_DECLARED_DEAD_"+strings.ReplaceAll(name, ".", "_"))
				}
			}
			w.expr(f.X, held, false)
		case s != nil && s.Kind() == types.FieldVal:
			// call through a func-typed struct field
			if fs := w.tracked(f); fs != nil {
				w.record(f, fs, held, false)
			}
			for _, target := range w.pa.fnField[f.Sel.Name] {
				if tn := w.pa.nodes[target]; tn != nil && tn.Parent != nil {
					// a stored literal: it runs here, under the locks of this point, in its own frame
					w.calls = append(w.calls, callRec{Callee: target, Recv: "", Held: nil})
					continue
				}
				w.calls = append(w.calls, callRec{Callee: target, Recv: "", Args: argStrs, Held: held.clone()})
			}
			w.expr(f.X, held, false)
		default:
			// unresolved (another package): x.f.Mutator(...) on a tracked pointer field, cross-package edges
			if inner, ok := f.X.(*ast.SelectorExpr); ok {
				if fs := w.tracked(inner); fs != nil {
					w.record(inner, fs, held, fs.Mut && bigMutators[f.Sel.Name])
					w.expr(inner.X, held, false)
					return
				}
				if tgt, ok := crossField[inner.Sel.Name]; ok {
					w.calls = append(w.calls, callRec{Cross: [3]string{tgt[0], tgt[1], f.Sel.Name}})
				}
			}
			if ic, ok := f.X.(*ast.CallExpr); ok {
				if isel, ok := ic.Fun.(*ast.SelectorExpr); ok {
					if tgt, ok := busModule[isel.Sel.Name]; ok && strings.HasSuffix(exprStr(isel.X), "bus") {
						w.calls = append(w.calls, callRec{Cross: [3]string{tgt[0], tgt[1], f.Sel.Name}})
					}
				}
			}
			w.expr(f.X, held, false)
		}
	default:
		w.expr(ce.Fun, held, false)
	}
}

// ---- driving the analysis ----------------------------------------------------------------------

func (pa *pkgAnalysis) analyse() {
	// entry sets: least fixpoint from "nothing"
	for round := 0; round < 12; round++ {
		for _, name := range pa.order {
			n := pa.nodes[name]
			entry := n.Entry
			if n.Parent != nil {
				entry = nil
				if n.LitHeld != nil {
					entry = *n.LitHeld
				}
			}
			w := &walker{pa: pa, n: n}
			n.Goto = false
			seed := entry.clone()
			for i := range seed {
				seed[i].Own, seed[i].Def, seed[i].Acq = false, 0, 0
			}
			if out, term := w.stmts(n.Body.List, seed); !term {
				w.atExit(out)
			}
			n.Accesses, n.Calls, n.Acquires = w.acc, w.calls, w.acqs
			n.Leaks, n.Doubles = w.leaks, w.doubles
			if n.Goto {
				for i := range n.Accesses {
					n.Accesses[i].Held = nil
				}
				for i := range n.Calls {
					n.Calls[i].Held = nil
				}
			}
		}
		// new entry sets of unexported declared functions
		changed := false
		sites := map[string][]lockSet{}
		// callers that never run concurrently with anything do not constrain their callees: initialisation
		// (allow-listed) and dead code (unexported, never called, never used as a value, not an entry point)
		called := map[string]bool{}
		for _, name := range pa.order {
			for _, c := range pa.nodes[name].Calls {
				if c.Callee != "" && c.Callee != name {
					called[c.Callee] = true
				}
			}
		}
		for _, name := range pa.order {
			caller := pa.nodes[name]
			top := caller
			for top.Parent != nil {
				top = top.Parent
			}
			if top.Init || (!top.Exported && !top.AsValue && !called[top.Name] && !pa.roots[top.Name]) {
				continue
			}
			for _, c := range caller.Calls {
				if c.Callee == "" {
					continue
				}
				callee := pa.nodes[c.Callee]
				if callee == nil || callee.Parent != nil {
					continue
				}
				if c.FreshRecv {
					continue // the callee works on an object nobody else can reach yet: no constraint on what it must hold
				}
				var tr lockSet
				for _, l := range c.Held {
					// translate the lock's base through the receiver expression and the arguments of the call
					if c.Recv != "" && callee.RecvName != "" && (l.Base == c.Recv || strings.HasPrefix(l.Base, c.Recv+".")) {
						tr = append(tr, heldLock{ID: l.ID, Base: callee.RecvName + l.Base[len(c.Recv):], W: l.W, Inherited: true})
						continue
					}
					for i, a := range c.Args {
						if i < len(callee.Params) && a != "" && callee.Params[i] != "_" && (l.Base == a || strings.HasPrefix(l.Base, a+".")) {
							if tr.find(l.ID, callee.Params[i]+l.Base[len(a):]) < 0 {
								tr = append(tr, heldLock{ID: l.ID, Base: callee.Params[i] + l.Base[len(a):], W: l.W, Inherited: true})
							}
							break
						}
					}
				}
				sites[c.Callee] = append(sites[c.Callee], tr)
			}
		}
		for _, name := range pa.order {
			n := pa.nodes[name]
			if n.Parent != nil {
				continue
			}
			var ne lockSet
			if (!n.Exported || n.Internal) && !n.AsValue && len(sites[name]) > 0 {
				ne = sites[name][0]
				for _, s := range sites[name][1:] {
					ne = meet(ne, s)
				}
			}
			if !sameSet(ne, n.Entry) {
				n.Entry = ne
				changed = true
			}
		}
		if !changed {
			pa.mayPass()
			return
		}
	}
	pa.errs = append(pa.errs, "LOCKSET_FIXPOINT_NOT_REACHED")
}

// mayPass: the bodies once more with union at the joins: a lock that MAY be held at an exit and has no release
// pending.  Nothing else of this pass is kept.
func (pa *pkgAnalysis) mayPass() {
	mayMode = true
	defer func() { mayMode = false }()
	for _, name := range pa.order {
		n := pa.nodes[name]
		if n.Goto {
			continue
		}
		// the side effects of a walk on other nodes (LitHeld, AsValue) are those of the last must pass: restore them
		saved := map[*node]*lockSet{}
		for _, x := range pa.nodes {
			saved[x] = x.LitHeld
		}
		w := &walker{pa: pa, n: n}
		if out, term := w.stmts(n.Body.List, nil); !term {
			w.atExit(out)
		}
		n.Goto = false
		for _, x := range pa.nodes {
			x.LitHeld = saved[x]
		}
		n.MayLeaks = w.leaks
	}
}

// reachShared marks ApiS: reachable from the query entry points through calls on shared objects only.
func (pa *pkgAnalysis) reachShared() {
	for _, n := range pa.nodes {
		n.ApiS = false
	}
	var todo []string
	for r := range pa.roots {
		todo = append(todo, r)
	}
	for len(todo) > 0 {
		name := todo[len(todo)-1]
		todo = todo[:len(todo)-1]
		n := pa.nodes[name]
		if n == nil || n.ApiS || n.Init {
			continue
		}
		n.ApiS = true
		for _, c := range n.Calls {
			if c.Callee != "" && !c.FreshRecv {
				todo = append(todo, c.Callee)
			}
		}
	}
}

// reach marks the nodes reachable from the query entry points; returns the cross-package calls they make.
func (pa *pkgAnalysis) reach() [][3]string {
	for _, n := range pa.nodes {
		n.Api = false
		n.ApiFrom = ""
	}
	var todo []string
	for r := range pa.roots {
		if pa.nodes[r] != nil {
			todo = append(todo, r)
		}
	}
	sort.Strings(todo)
	var cross [][3]string
	for len(todo) > 0 {
		name := todo[len(todo)-1]
		todo = todo[:len(todo)-1]
		n := pa.nodes[name]
		if n == nil || n.Api || n.Init {
			continue
		}
		n.Api = true
		for _, c := range n.Calls {
			if c.Callee != "" {
				if cn := pa.nodes[c.Callee]; cn != nil && !cn.Api && cn.ApiFrom == "" {
					cn.ApiFrom = name
				}
				todo = append(todo, c.Callee)
			} else if c.Cross[0] != "" {
				cross = append(cross, c.Cross)
			}
		}
	}
	return cross
}

// guardEval: for each guard of the field, is it held for the right instance (and in W mode)?
// Returns the held guard locks as Coq pairs, whether a READ / a WRITE is covered, and whether
// any of the covering locks was inherited from the callers.
func guardEval(a *accessRec) (held []string, readOK, writeOK, inherited bool) {
	writeOK = len(a.spec.Guards) > 0
	for _, g := range a.spec.Guards {
		want := a.Base
		if g.Rel == "owner1" {
			i := strings.LastIndex(want, ".")
			if i < 0 {
				writeOK = false
				continue
			}
			want = want[:i]
		}
		found := false
		for _, l := range a.Held {
			if l.ID == g.GStruct+"."+g.GField && l.Base == want {
				m := "MR"
				if l.W {
					m = "MW"
				}
				held = append(held, fmt.Sprintf("(%q, %s)", l.ID, m))
				found = true
				readOK = true
				if !l.W {
					writeOK = false
				}
				if l.Inherited {
					inherited = true
				}
				break
			}
		}
		if !found {
			writeOK = false
		}
	}
	return
}

type lockTable struct {
	relocks           []string       // a mutex acquired while the same thread already holds it
	relocksIrrelevant []string       // RLock inside RLock where no other goroutine can ask for the write lock
	lockLeaks         []string       // a lock acquired in a function and still held on some return path / released twice
	unguardedCount    map[string]int // unguarded accesses per site key
	reviewed          []string       // static keys covered by reviewedSites (with the pinned number of accesses)
	reported          []string       // static keys not covered: what the harness reports
	nonatomic         []string       // cache fills whose absence check and store are two critical sections
	edges             [][3]string    // lock order: held -> acquired, witness
	edgeAPI           []bool         // some site of the edge is reachable from a query entry point
	lockNodes         []string
	cycles            []string
	guards            [][2]string
	rows              []string // Coq terms
	unguarded         []string
	errs              []string
	counts            map[string]int
	qwrites           []string
}

// lockOrder: A -> B when B is acquired (here or in a callee, transitively) at a point where A is
// definitely held.  Lock identity is the type-level one (package.Struct.mutexField); edges between two
// instances of the same mutex field are not recorded.  A cycle means two threads can block each other.
func (t *lockTable) lockOrder(pas map[string]*pkgAnalysis) {
	seen := map[[2]string]bool{}
	seenIdx := map[[2]string]int{}
	nodes := map[string]bool{}
	for _, spec := range lockPkgs {
		pa := pas[spec.Dir]
		if pa == nil {
			continue
		}
		pa.reach()
		pa.reachShared()
		q := func(id string) string { return filepath.Base(spec.Dir) + "." + id }
		// locks a node acquires itself
		own := map[string]map[string]bool{}
		for _, name := range pa.order {
			own[name] = map[string]bool{}
			for _, a := range pa.nodes[name].Acquires {
				own[name][a.ID] = true
			}
		}
		// chain(from, m): a shortest call chain from `from` to a node that acquires m itself ("" if none)
		chain := func(from, m string) string {
			type item struct{ name, path string }
			vis := map[string]bool{from: true}
			todo := []item{{from, from}}
			for len(todo) > 0 {
				it := todo[0]
				todo = todo[1:]
				if own[it.name][m] {
					return it.path
				}
				if n := pa.nodes[it.name]; n != nil {
					for _, c := range n.Calls {
						if c.Callee != "" && !vis[c.Callee] && pa.nodes[c.Callee] != nil {
							vis[c.Callee] = true
							todo = append(todo, item{c.Callee, it.path + " -> " + c.Callee})
						}
					}
				}
			}
			return ""
		}
		add := func(from, to, wit string, api bool) {
			if from == to {
				return
			}
			k := [2]string{q(from), q(to)}
			if i, ok := seenIdx[k]; ok {
				if api && !t.edgeAPI[i] {
					t.edgeAPI[i] = true
					t.edges[i][2] = wit // prefer a query-side witness
				}
				return
			}
			seenIdx[k] = len(t.edges)
			seen[k] = true
			nodes[q(from)], nodes[q(to)] = true, true
			t.edges = append(t.edges, [3]string{q(from), q(to), wit})
			t.edgeAPI = append(t.edgeAPI, api)
		}
		var mutexIDs []string
		{
			set := map[string]bool{}
			for _, id := range pa.mutexes {
				set[id] = true
			}
			for id := range set {
				mutexIDs = append(mutexIDs, id)
			}
			sort.Strings(mutexIDs)
		}
		for _, name := range pa.order {
			n := pa.nodes[name]
			top := n
			for top.Parent != nil {
				top = top.Parent
			}
			if top.Init {
				continue
			}
			for _, a := range n.Acquires {
				for _, h := range a.Held {
					add(h.ID, a.ID, fmt.Sprintf("%s:%d %s", n.File, a.Line, name), n.ApiS)
				}
			}
			for _, c := range n.Calls {
				if c.Callee == "" || len(c.Held) == 0 || c.FreshRecv {
					// (a call on a private copy takes the copy's own locks; the callbacks a copy shares with the
					// live object are not followed here)
					continue
				}
				for _, m := range mutexIDs {
					need := false
					for _, h := range c.Held {
						if i, ok := seenIdx[[2]string{q(h.ID), q(m)}]; h.ID != m && (!ok || (n.ApiS && !t.edgeAPI[i])) {
							need = true
						}
					}
					if !need {
						continue
					}
					if ch := chain(c.Callee, m); ch != "" {
						for _, h := range c.Held {
							add(h.ID, m, fmt.Sprintf("%s %s -> %s", n.File, name, ch), n.ApiS)
						}
					}
				}
			}
		}
	}
	for n := range nodes {
		t.lockNodes = append(t.lockNodes, n)
	}
	sort.Strings(t.lockNodes)
	succ := map[string][]string{}
	succAPI := map[string][]string{}
	for i, e := range t.edges {
		succ[e[0]] = append(succ[e[0]], e[1])
		if t.edgeAPI[i] {
			succAPI[e[0]] = append(succAPI[e[0]], e[1])
		}
	}
	reachIn := func(succ map[string][]string, a, b string) bool {
		vis := map[string]bool{}
		todo := append([]string{}, succ[a]...)
		for len(todo) > 0 {
			x := todo[len(todo)-1]
			todo = todo[:len(todo)-1]
			if vis[x] {
				continue
			}
			vis[x] = true
			if x == b {
				return true
			}
			todo = append(todo, succ[x]...)
		}
		return false
	}
	// two different threads are needed: one of the two opposite orders must be taken on a query path
	// (block execution is one thread)
	for i, a := range t.lockNodes {
		for _, b := range t.lockNodes[i+1:] {
			if (reachIn(succAPI, a, b) && reachIn(succ, b, a)) || (reachIn(succAPI, b, a) && reachIn(succ, a, b)) {
				t.cycles = append(t.cycles, "c25-lock-order:"+a+"|"+b)
			}
		}
	}
}

// findRelocks: sync.Mutex and sync.RWMutex are not reentrant.  Lock after Lock/RLock blocks for ever;
// RLock after RLock blocks for ever as soon as another goroutine calls Lock in between (a pending
// writer stops new readers).  Reported: an acquisition of a mutex that is in the must-held set at
// that point, or that the callee performs on a mutex the caller holds at the call (same instance,
// translated through receiver and arguments).
func (t *lockTable) findRelocks(pas map[string]*pkgAnalysis) {
	seen := map[string]bool{}
	for _, spec := range lockPkgs {
		pa := pas[spec.Dir]
		if pa == nil {
			continue
		}
		pa.reachShared()
		// who asks for the mutex in W mode: anybody / a query
		wAny, wQuery := map[string]bool{}, map[string]bool{}
		for _, name := range pa.order {
			n := pa.nodes[name]
			top := n
			for top.Parent != nil {
				top = top.Parent
			}
			if top.Init || top.Dead {
				continue
			}
			for _, a := range n.Acquires {
				if a.W {
					wAny[a.ID] = true
					if n.ApiS {
						wQuery[a.ID] = true
						if os.Getenv("XLATE_LOCKS_DEBUG") != "" {
							fmt.Fprintf(os.Stderr, "QUERYWLOCK %s %s\n", a.ID, name)
						}
					}
				}
			}
		}
		// add: a re-acquisition involving a W mode blocks by itself.  RLock inside RLock blocks only when ANOTHER
		// goroutine asks for the write lock in between: block execution is one goroutine, so either the
		// re-locking code is query-reachable (and anybody writes), or it is executor-only and a query writes.
		add := func(k, id string, site *node, heldW, newW bool) {
			if !heldW && !newW {
				if !((site.ApiS && wAny[id]) || (!site.ApiS && wQuery[id])) {
					t.relocksIrrelevant = append(t.relocksIrrelevant, k)
					return
				}
			}
			if !seen[k] {
				seen[k] = true
				t.relocks = append(t.relocks, k)
			}
		}
		for _, name := range pa.order {
			n := pa.nodes[name]
			for _, a := range n.Acquires {
				if i := a.Held.find(a.ID, a.Base); i >= 0 {
					add(fmt.Sprintf("c25-relock:%s:%s:%s", n.File, name, a.ID), a.ID, n, a.Held[i].W, a.W)
				}
			}
			for _, c := range n.Calls {
				callee := pa.nodes[c.Callee]
				if callee == nil || callee.Parent != nil || len(c.Held) == 0 {
					continue
				}
				for _, l := range c.Held {
					base := ""
					if c.Recv != "" && callee.RecvName != "" && (l.Base == c.Recv || strings.HasPrefix(l.Base, c.Recv+".")) {
						base = callee.RecvName + l.Base[len(c.Recv):]
					} else {
						for i, a := range c.Args {
							if i < len(callee.Params) && a != "" && (l.Base == a || strings.HasPrefix(l.Base, a+".")) {
								base = callee.Params[i] + l.Base[len(a):]
								break
							}
						}
					}
					if base == "" {
						continue
					}
					for _, a := range callee.Acquires {
						// only acquisitions the callee makes before releasing anything of its own: those not preceded
						// by a release are exactly the ones whose Held set does not yet contain the lock
						if a.ID == l.ID && a.Base == base && a.Held.find(a.ID, a.Base) < 0 {
							add(fmt.Sprintf("c25-relock:%s:%s->%s:%s", n.File, name, c.Callee, a.ID), a.ID, n, l.W, a.W)
						}
					}
				}
			}
		}
	}
}

// findNonAtomicFills: a query-reachable function that first calls something which READS a shared map
// under a lock it takes and releases itself (the lookup), and later calls something which WRITES the map
// blindly under a lock it takes itself (no read of the map in that function: no re-check), holding no guard
// of the map across the two calls.  Two goroutines can both miss and both store: the second store replaces
// the object the first goroutine may already have modified (lost update; Coq: C25_memo_nonatomic_refuted).
func (t *lockTable) findNonAtomicFills(pas map[string]*pkgAnalysis) {
	for _, spec := range lockPkgs {
		pa := pas[spec.Dir]
		if pa == nil {
			continue
		}
		pa.reachShared()
		guardIDs := func(fs *fieldSpec) map[string]bool {
			m := map[string]bool{}
			for _, g := range fs.Guards {
				m[g.GStruct+"."+g.GField] = true
			}
			return m
		}
		holdsGuard := func(h lockSet, gs map[string]bool) bool {
			for _, l := range h {
				if gs[l.ID] {
					return true
				}
			}
			return false
		}
		for i := range spec.Fields {
			fs := &spec.Fields[i]
			if fs.Mut || fs.Atomic {
				continue
			}
			field := fs.Struct + "." + fs.Field
			gs := guardIDs(fs)
			// RR: reads the field under its own lock (directly, or through an unguarded call)
			rr, wl := map[string]bool{}, map[string]bool{}
			for _, name := range pa.order {
				n := pa.nodes[name]
				hasR, hasW := false, false
				for _, a := range n.Accesses {
					if a.Field != field || a.Fresh {
						continue
					}
					_, rok, wok, inh := guardEval(&a)
					if inh {
						continue
					}
					if !a.Write && rok {
						hasR = true
					}
					if a.Write && wok {
						hasW = true
					}
				}
				if hasR && !hasW {
					rr[name] = true
				}
				if hasW && !hasR {
					wl[name] = true
				}
			}
			for changed := true; changed; {
				changed = false
				for _, name := range pa.order {
					if rr[name] || wl[name] {
						continue
					}
					for _, c := range pa.nodes[name].Calls {
						if c.Callee != "" && rr[c.Callee] && !holdsGuard(c.Held, gs) && !c.FreshRecv {
							// the lookup result comes back with the lock released
							hasOwnW := false
							for _, c2 := range pa.nodes[name].Calls {
								if c2.Callee != "" && wl[c2.Callee] {
									hasOwnW = true
								}
							}
							if !hasOwnW {
								rr[name] = true
								changed = true
							}
							break
						}
					}
				}
			}
			// the same inside one function: the field is read under its guard in one critical section and written in
			// a LATER critical section of the same function that does not read it again before the write (no
			// re-check): the value checked (a map entry absent, a flag false) may have changed in between
			intra := map[string]bool{}
			for _, name := range pa.order {
				n := pa.nodes[name]
				if n.Init || n.Goto {
					continue
				}
				type ga struct {
					acq, line int
					write     bool
				}
				var gas []ga
				for i := range n.Accesses {
					a := &n.Accesses[i]
					if a.Field != field || a.Fresh {
						continue
					}
					acq := 0
					for _, g := range a.spec.Guards {
						for _, l := range a.Held {
							if l.ID == g.GStruct+"."+g.GField && l.Own {
								acq = l.Acq
							}
						}
					}
					if acq > 0 {
						gas = append(gas, ga{acq, a.Line, a.Write})
					}
				}
				for _, wr := range gas {
					if !wr.write {
						continue
					}
					recheck, earlier := false, false
					for _, rd := range gas {
						if rd.write {
							continue
						}
						if rd.acq == wr.acq && rd.line <= wr.line {
							recheck = true
						}
						if rd.acq != wr.acq && rd.line < wr.line {
							earlier = true
						}
					}
					if earlier && !recheck {
						intra[name] = true
					}
				}
			}
			// a function with a non-atomic fill is itself a lookup that comes back with the lock released
			flagged := map[string]bool{}
			for again := true; again; {
				again = false
				for _, name := range pa.order {
					n := pa.nodes[name]
					if flagged[name] || n.Init {
						continue
					}
					flag := false
					for _, c1 := range n.Calls {
						if c1.Callee == "" || !rr[c1.Callee] || holdsGuard(c1.Held, gs) {
							continue
						}
						for _, c2 := range n.Calls {
							if c2.Callee != "" && wl[c2.Callee] && c2.Pos > c1.Pos && !holdsGuard(c2.Held, gs) {
								flag = true
							}
						}
					}
					if flag {
						flagged[name] = true
						rr[name] = true
						again = true
					}
				}
			}
			for _, name := range pa.order {
				if n := pa.nodes[name]; (flagged[name] || intra[name]) && n.ApiS {
					t.nonatomic = append(t.nonatomic, fmt.Sprintf("c25-nonatomic-fill:%s:%s:%s", n.File, name, field))
				}
			}
		}
	}
}

var lockTableCache *lockTable

func buildLockTable() *lockTable {
	if lockTableCache != nil {
		return lockTableCache
	}
	t := &lockTable{counts: map[string]int{}, unguardedCount: map[string]int{}}
	lockTableCache = t
	pas := map[string]*pkgAnalysis{}
	for _, spec := range lockPkgs {
		pa, err := loadLockPkg(spec)
		if err != nil {
			t.errs = append(t.errs, "UNKNOWN_PACKAGE_"+strings.NewReplacer("/", "_", ".", "_").Replace(spec.Dir))
			continue
		}
		pas[spec.Dir] = pa
		pa.analyse()
	}
	t.errs = append(t.errs, checkExportPrivate()...)
	for _, spec := range lockPkgs {
		t.errs = append(t.errs, checkHistoricalOnly(spec)...)
	}
	// query reachability across the analysed packages
	for round := 0; round < 6; round++ {
		added := false
		for _, spec := range lockPkgs {
			pa := pas[spec.Dir]
			if pa == nil {
				continue
			}
			for _, c := range pa.reach() {
				if tp := pas[c[0]]; tp != nil {
					if !tp.roots[c[1]+"."+c[2]] && tp.addRoot(c[1]+"."+c[2]) {
						added = true
					}
				}
			}
		}
		if !added {
			break
		}
	}
	seenKey := map[string]bool{}
	seenQW := map[string]bool{}
	for _, spec := range lockPkgs {
		pa := pas[spec.Dir]
		if pa == nil {
			continue
		}
		pa.reach()
		t.errs = append(t.errs, pa.errs...)
		for _, fs := range spec.Fields {
			var gs []string
			for _, g := range fs.Guards {
				gs = append(gs, fmt.Sprintf("%q", g.GStruct+"."+g.GField))
			}
			t.guards = append(t.guards, [2]string{fs.Struct + "." + fs.Field, "[" + strings.Join(gs, "; ") + "]"})
		}
	}
	for _, spec := range lockPkgs {
		if pa := pas[spec.Dir]; pa != nil {
			for _, name := range pa.order {
				for _, c := range pa.nodes[name].Calls {
					if cn := pa.nodes[c.Callee]; cn != nil && cn.Dead && !pa.nodes[name].Dead {
						top := pa.nodes[name]
						for top.Parent != nil {
							top = top.Parent
						}
						if top != cn {
							t.errs = append(t.errs, "UNREACHABLE_METHOD_CALLED_BY_"+strings.NewReplacer(".", "_", "#", "_").Replace(name))
						}
					}
				}
			}
		}
	}
	t.lockOrder(pas)
	t.findRelocks(pas)
	t.findLockLeaks(pas)
	t.findNonAtomicFills(pas)
	// a field is shared when a non-init access to it is query-reachable
	shared := map[string]bool{}
	var all []*accessRec
	var owner []*node
	for _, spec := range lockPkgs {
		pa := pas[spec.Dir]
		if pa == nil {
			continue
		}
		for _, name := range pa.order {
			n := pa.nodes[name]
			for i := range n.Accesses {
				a := &n.Accesses[i]
				all = append(all, a)
				owner = append(owner, n)
				if n.Api && !n.Init && !a.Fresh && !n.Dead {
					shared[a.Field] = true
				}
			}
		}
	}
	for i, a := range all {
		n := owner[i]
		// the Coq row carries only the guard-relevant locks: the held locks that are a guard of this
		// field for this instance (other held locks are irrelevant to the field)
		held, readOK, writeOK, inh := guardEval(a)
		via := ""
		if len(held) > 0 {
			via = "local"
			if inh {
				via = "callers"
			}
		}
		topn := n
		for topn.Parent != nil {
			topn = topn.Parent
		}
		init := n.Init || a.Fresh || topn.Dead
		if a.Fresh {
			via = "fresh"
		}
		if topn.Dead {
			via = "unreachable"
		}
		ok := readOK
		if a.Write {
			ok = writeOK
		}
		t.counts["accesses"]++
		switch {
		case init:
			t.counts["allow_listed_init"]++
		case !shared[a.Field]:
			t.counts["executor_only_field"]++
		case ok:
			t.counts["guarded"]++
		default:
			t.counts["unguarded"]++
			key := fmt.Sprintf("c25-unguarded:%s:%s:%s", a.File, a.Func, a.Field)
			t.unguardedCount[key]++
			if !seenKey[key] {
				seenKey[key] = true
				t.unguarded = append(t.unguarded, key)
			}
		}
		if n.Api && a.Write && !init {
			k := a.Func + ":" + a.Field
			if !seenQW[k] {
				seenQW[k] = true
				t.qwrites = append(t.qwrites, k)
			}
		}
		t.rows = append(t.rows, fmt.Sprintf("Acc %q %q %d %q %v [%s] %q %v %v", a.File, a.Func, a.Line, a.Field, a.Write, strings.Join(held, "; "), via, n.Api, init))
		if os.Getenv("XLATE_LOCKS_DEBUG") != "" && n.Api && a.Write && !init {
			fmt.Fprintf(os.Stderr, "QUERYWRITE %s %s <- %s\n", a.Func, a.Field, n.ApiFrom)
		}
		if os.Getenv("XLATE_LOCKS_DEBUG") != "" && !init && shared[a.Field] && !ok {
			fmt.Fprintf(os.Stderr, "UNGUARDED %s:%d %s %s base=%s write=%v held=%v entry=%v api=%v<-%s\n", a.File, a.Line, a.Func, a.Field, a.Base, a.Write, a.Held, n.Entry, n.Api, n.ApiFrom)
		}
	}
	// reviewed vs reported
	for _, k := range t.allStatic() {
		if rv, ok := reviewedSites[k]; ok && (rv.Count == 0 || rv.Count == t.unguardedCount[k]) && rv.holds() {
			t.reviewed = append(t.reviewed, k)
		} else {
			t.reported = append(t.reported, k)
		}
	}
	return t
}

// findLockLeaks: per function body (function literals apart), every path to a return or to the end must have
// released, or have a deferred release pending for, every lock the body acquired; and must not release a lock
// for which an unconditional deferred release is pending, or twice in a row.  Both the MUST analysis (definitely
// held at the exit) and the MAY analysis (held on some path to the exit: union at joins) report.
func (t *lockTable) findLockLeaks(pas map[string]*pkgAnalysis) {
	seen := map[string]bool{}
	for _, spec := range lockPkgs {
		pa := pas[spec.Dir]
		if pa == nil {
			continue
		}
		for _, name := range pa.order {
			n := pa.nodes[name]
			top := n
			for top.Parent != nil {
				top = top.Parent
			}
			if top.Dead {
				continue
			}
			add := func(kind, id string) {
				k := fmt.Sprintf("%s:%s:%s:%s", kind, n.File, name, id)
				if !seen[k] {
					seen[k] = true
					t.lockLeaks = append(t.lockLeaks, k)
				}
			}
			for _, id := range n.Leaks {
				add("c25-lock-not-released", id)
			}
			for _, id := range n.MayLeaks {
				add("c25-lock-not-released", id)
				t.unguardedCount[fmt.Sprintf("c25-lock-not-released:%s:%s:%s", n.File, name, id)]++ // one per exit
			}
			for _, id := range n.Doubles {
				add("c25-lock-released-twice", id)
			}
			if os.Getenv("XLATE_LOCKS_DEBUG") != "" && (len(n.Leaks)+len(n.MayLeaks)+len(n.Doubles) > 0) {
				fmt.Fprintf(os.Stderr, "LOCKBALANCE %s %s must=%v may=%v twice=%v\n", n.File, name, n.Leaks, n.MayLeaks, n.Doubles)
			}
		}
	}
}

func (t *lockTable) allStatic() []string {
	all := append([]string{}, t.unguarded...)
	all = append(all, t.lockLeaks...)
	all = append(all, t.cycles...)
	all = append(all, t.relocks...)
	return append(all, t.nonatomic...)
}

// reviewedSites: static sites that violate the letter of the discipline but cannot go wrong, each with the
// argument (repeated in coq/Properties/C25.v, which pins this list: C25_static_sites_reviewed).  Count: the number
// of unguarded accesses the site has; one more (a Lock removed in the same function) and the site is reported.
type reviewedSite struct {
	Count int
	Why   string
	// facts of the source the argument rests on, checked on every run: substrings that must not occur in the
	// non-test files below a directory, and substrings that must occur in a file
	AbsentBelow map[string][]string
	PresentIn   [][2]string
}

// holds: the facts the argument rests on are still true of the source
func (r reviewedSite) holds() bool {
	for dir, subs := range r.AbsentBelow {
		for rel, lines := range repoLines() {
			if !strings.HasPrefix(rel, dir) {
				continue
			}
			for _, l := range lines {
				for _, sub := range subs {
					if strings.Contains(l, sub) {
						return false
					}
				}
			}
		}
	}
	for _, p := range r.PresentIn {
		found := false
		for _, l := range repoLines()[p[0]] {
			if strings.Contains(l, p[1]) {
				found = true
			}
		}
		if !found {
			return false
		}
	}
	return true
}

var reviewedSites = map[string]reviewedSite{
	"c25-lock-not-released:coreV2/state/candidates/candidates.go:Candidates.Commit:Candidates.muDeletedCandidates": {Count: 1,
		Why:       "Candidates.Commit returns the encoding error with the lock still held: State.Commit hands the error to Blockchain.Commit, which panics on it (the process stops, nobody waits for the lock); rlp encoding of this type does not fail",
		PresentIn: [][2]string{{"coreV2/minter/blockchain.go", "hash, err := blockchain.stateDeliver.Commit()"}, {"coreV2/minter/blockchain.go", "panic(err)"}}},
	"c25-lock-not-released:coreV2/state/waitlist/waitlist.go:WaitList.Commit:Model.lock": {Count: 1,
		Why:       "WaitList.Commit returns the encoding error with the lock still held: State.Commit hands the error to Blockchain.Commit, which panics on it (the process stops, nobody waits for the lock); rlp encoding of this type does not fail",
		PresentIn: [][2]string{{"coreV2/minter/blockchain.go", "hash, err := blockchain.stateDeliver.Commit()"}, {"coreV2/minter/blockchain.go", "panic(err)"}}},
	"c25-lock-not-released:coreV2/state/frozenfunds/frozen_funds.go:FrozenFunds.Commit:Model.lock": {Count: 1,
		Why:       "FrozenFunds.Commit returns the encoding error with the lock still held: State.Commit hands the error to Blockchain.Commit, which panics on it (the process stops, nobody waits for the lock); rlp encoding of this type does not fail",
		PresentIn: [][2]string{{"coreV2/minter/blockchain.go", "hash, err := blockchain.stateDeliver.Commit()"}, {"coreV2/minter/blockchain.go", "panic(err)"}}},
	"c25-relock:coreV2/state/validators/validators.go:Validators.IsValidator->Validators.GetValidators:Validators.lock": {Count: 0,
		Why:         "RLock inside RLock deadlocks only if another goroutine asks for the write lock in between. IsValidator is called only by Candidates.DeleteCandidate (block execution). The write lock of Validators.lock is requested by block execution (Commit, SetNewValidators, SetValidators, TotalStakes) and by Count(), which only IsDelegatorStakeAllowed reaches: the Delegate transaction, i.e. DeliverTx (the same goroutine) and CheckTx, which the local ABCI client serialises with block execution (one mutex for all connections); no API or CLI handler calls either",
		AbsentBelow: map[string][]string{"api/": {"IsDelegatorStakeAllowed(", ".IsValidator(", "Validators().Count("}, "cli/": {"IsDelegatorStakeAllowed(", ".IsValidator(", "Validators().Count("}},
		PresentIn:   [][2]string{{"cmd/minter/cmd/node.go", "proxy.NewLocalClientCreator(app)"}}},
	"c25-unguarded:coreV2/state/swap/orderV2.go:PairV2.getDirtyOrdersList:orderDirties.list": {Count: 1, Why: "len(p.dirtyOrders.list) before the RLock, only a capacity hint; called from SwapV2.Commit under pair.lockOrders; dirtyOrders.list of a live pair is written only by MarkDirtyOrders, whose callers on a live pair (SellWithOrders, BuyWithOrders, AddOrder, removeLimitOrder) hold lockOrders and run in block execution; queries write it on private copies only"},
	"c25-unguarded:coreV2/state/swap/swapV2.go:SwapV2.Commit:SwapV2.dirties":                 {Count: 1, Why: "s.dirties = map{} under muPairs.RLock: every other access to dirties is the markDirty closure under muPairs.Lock (excluded by the RLock) or getOrderedDirtyPairs in Commit itself (same goroutine)"},
	"c25-unguarded:coreV2/state/swap/swapV2.go:SwapV2.Commit:SwapV2.dirtiesOrders":           {Count: 1, Why: "s.dirtiesOrders = map{} under muPairs.RLock: every other access is the markDirtyOrders closure under muPairs.Lock (excluded by the RLock) or getOrderedDirtyOrderPairs in Commit itself (same goroutine)"},
}

func coqStrList(l []string) string {
	q := make([]string, len(l))
	for i, s := range l {
		q[i] = fmt.Sprintf("%q", s)
	}
	return "[" + strings.Join(q, ";\n  ") + "]"
}

func genLocks() string {
	t := buildLockTable()
	var sb strings.Builder
	sb.WriteString("(* GENERATED by harness/cmd/xlate (locks.go) from /repo on every run — do not edit *)\n")
	sb.WriteString("From Coq Require Import ZArith List String.\nFrom Minter Require Import Lockset.\nImport ListNotations.\nLocal Open Scope string_scope.\nLocal Open Scope Z_scope.\n\n")
	if len(t.errs) > 0 {
		sort.Strings(t.errs)
		// fail closed: an identifier that does not exist
		fmt.Fprintf(&sb, "Definition accesses : list access := %s.\n", t.errs[0])
		for _, e := range t.errs {
			fmt.Fprintf(&sb, "(* %s *)\n", e)
		}
		return sb.String()
	}
	sb.WriteString("(* field -> the mutex that is meant to guard it (harness/cmd/xlate/locks.go, one comment per entry there) *)\n")
	sb.WriteString("Definition guard_table : list (string * list string) := [\n")
	for i, g := range t.guards {
		sep := ";"
		if i == len(t.guards)-1 {
			sep = ""
		}
		fmt.Fprintf(&sb, "  (%q, %s)%s\n", g[0], g[1], sep)
	}
	sb.WriteString("].\n\n")
	sb.WriteString("(* file, function, line, field, is-write, guard-relevant MUST-held locks, via, query-reachable, allow-listed init *)\n")
	sb.WriteString("Definition accesses : list access := [\n  ")
	sb.WriteString(strings.Join(t.rows, ";\n  "))
	sb.WriteString("\n].\n\n")
	sb.WriteString("(* the translator's own evaluation of the discipline (Properties/C25.v proves that Coq's agrees) *)\n")
	fmt.Fprintf(&sb, "Definition xlate_unguarded : list string := %s.\n\n", coqStrList(t.unguarded))
	fmt.Fprintf(&sb, "Definition xlate_query_writes : list string := %s.\n\n", coqStrList(t.qwrites))
	sb.WriteString("(* lock order: (held, acquired, on a query path, witness): the second is acquired, here or in a callee, while the first is held *)\n")
	sb.WriteString("Definition lock_order : list (string * string * bool * string) := [\n")
	for i, e := range t.edges {
		sep := ";"
		if i == len(t.edges)-1 {
			sep = ""
		}
		fmt.Fprintf(&sb, "  (%q, %q, %v, %q)%s\n", e[0], e[1], t.edgeAPI[i], e[2], sep)
	}
	sb.WriteString("].\n")
	fmt.Fprintf(&sb, "Definition lock_nodes : list string := %s.\n", coqStrList(t.lockNodes))
	fmt.Fprintf(&sb, "Definition xlate_lock_cycles : list string := %s.\n\n", coqStrList(t.cycles))
	sb.WriteString("(* re-acquisition of a mutex the thread already holds (Go mutexes are not reentrant; Lockset.run_ls rejects it) *)\n")
	fmt.Fprintf(&sb, "Definition xlate_relocks : list string := %s.\n\n", coqStrList(t.relocks))
	sb.WriteString("(* a lock acquired by a function and still held on a return path, or released twice *)\n")
	fmt.Fprintf(&sb, "Definition xlate_lock_leaks : list string := %s.\n\n", coqStrList(t.lockLeaks))
	fmt.Fprintf(&sb, "Definition xlate_relocks_irrelevant : list string := %s. (* RLock inside RLock, no other goroutine ever asks for the write lock *)\n\n", coqStrList(t.relocksIrrelevant))
	sb.WriteString("(* cache fills whose absence check and store are separate critical sections (Lockset: QStore, not QFill) *)\n")
	fmt.Fprintf(&sb, "Definition xlate_nonatomic_fills : list string := %s.\n\n", coqStrList(t.nonatomic))
	sb.WriteString("(* static sites covered by the reviewed list of locks.go (key, number of unguarded accesses) / the others: reported by the harness *)\n")
	sb.WriteString("Definition xlate_reviewed : list (string * Z) := [")
	for i, k := range t.reviewed {
		if i > 0 {
			sb.WriteString(";\n  ")
		}
		fmt.Fprintf(&sb, "(%q, %d)", k, t.unguardedCount[k])
	}
	sb.WriteString("].\n")
	fmt.Fprintf(&sb, "Definition xlate_reported : list string := %s.\n\n", coqStrList(t.reported))
	keys := make([]string, 0, len(t.counts))
	for k := range t.counts {
		keys = append(keys, k)
	}
	sort.Strings(keys)
	sb.WriteString("(* summary:")
	for _, k := range keys {
		fmt.Fprintf(&sb, " %s=%d", k, t.counts[k])
	}
	sb.WriteString(" *)\n")
	return sb.String()
}

// genLocksUnguarded: one key per line, read by `vharness c25`.
func genLocksUnguarded() string {
	t := buildLockTable()
	if len(t.errs) > 0 {
		return "c25-unguarded:TRANSLATOR:" + t.errs[0] + "\n"
	}
	return strings.Join(t.reported, "\n") + "\n"
}
