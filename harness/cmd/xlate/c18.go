package main

import (
	"fmt"
	"go/ast"
	"go/token"
)

// funcBigLits emits, in source order, the non-zero integer literals passed to big.NewInt(...)
// inside the named function; the number found must equal len(names), else the shape is unknown.
func (o *out) funcBigLits(names []string, rel, recv, fn string) {
	bad := func(why string) {
		for _, n := range names {
			o.def(n, why, rel+":"+fn)
		}
	}
	f := load(rel)
	if f == nil {
		bad("UNKNOWN_FILE")
		return
	}
	fd := findFunc(f, recv, fn)
	if fd == nil {
		bad("UNKNOWN_IDENT")
		return
	}
	var lits []string
	ast.Inspect(fd.Body, func(n ast.Node) bool {
		ce, ok := n.(*ast.CallExpr)
		if !ok || len(ce.Args) != 1 {
			return true
		}
		se, ok := ce.Fun.(*ast.SelectorExpr)
		if !ok || se.Sel.Name != "NewInt" {
			return true
		}
		if id, ok := se.X.(*ast.Ident); !ok || id.Name != "big" {
			return true
		}
		if bl, ok := ce.Args[0].(*ast.BasicLit); ok {
			if z, ok := constToZ(evalConst(f, bl, 0)); ok && z != "0" {
				lits = append(lits, z)
			}
		} else {
			lits = append(lits, "UNKNOWN_SHAPE") // a non-literal amount: not the shape we know
		}
		return true
	})
	if len(lits) != len(names) {
		bad("UNKNOWN_SHAPE")
		return
	}
	for i, n := range names {
		o.def(n, lits[i], rel+":"+fn+" big.NewInt literal #"+fmt.Sprint(i+1))
	}
}

// chainFunc recognises  func F(chain ChainID) uint64 { if chain == ChainTestnet { return X }; return Y }
// and emits <coq>_testnet := X, <coq>_mainnet := Y.
func (o *out) chainFunc(coq, rel, fn string) {
	recv := ""
	bad := func(why string) {
		o.def(coq+"_testnet", why, rel+":"+fn)
		o.def(coq+"_mainnet", why, rel+":"+fn)
	}
	f := load(rel)
	if f == nil {
		bad("UNKNOWN_FILE")
		return
	}
	fd := findFunc(f, recv, fn)
	if fd == nil {
		bad("UNKNOWN_IDENT")
		return
	}
	if len(fd.Body.List) != 2 {
		bad("UNKNOWN_SHAPE")
		return
	}
	is, ok1 := fd.Body.List[0].(*ast.IfStmt)
	rs, ok2 := fd.Body.List[1].(*ast.ReturnStmt)
	if !ok1 || !ok2 || is.Else != nil || is.Init != nil || len(is.Body.List) != 1 || len(rs.Results) != 1 {
		bad("UNKNOWN_SHAPE")
		return
	}
	cond, ok := is.Cond.(*ast.BinaryExpr)
	if !ok || cond.Op != token.EQL {
		bad("UNKNOWN_SHAPE")
		return
	}
	if r, ok := cond.Y.(*ast.Ident); !ok || r.Name != "ChainTestnet" {
		bad("UNKNOWN_SHAPE")
		return
	}
	rt, ok := is.Body.List[0].(*ast.ReturnStmt)
	if !ok || len(rt.Results) != 1 {
		bad("UNKNOWN_SHAPE")
		return
	}
	zt, okt := constToZ(evalConst(f, rt.Results[0], 0))
	zm, okm := constToZ(evalConst(f, rs.Results[0], 0))
	if !okt || !okm {
		bad("UNKNOWN_SHAPE")
		return
	}
	o.def(coq+"_testnet", zt, rel+":"+fn+" (chain == ChainTestnet)")
	o.def(coq+"_mainnet", zm, rel+":"+fn)
}
