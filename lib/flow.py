"""The standard check flow shared by all properties (see DESIGN.md §2, §6)."""
import json, os
from common import Check, VERIF, WORK


def standard(pid, tier, seed, theorem_files, runs, level="proof", vm_k=40, post=None, rule_extra="", race=False):
    """runs: list of dicts {cmd, quick, thorough, extra?, model?: bool (diff against the Coq model)}"""
    chk = Check(pid, tier, seed)
    chk.regenerate()
    proof_ok, why = chk.proof_gate([f[:-2] + ".vo" for f in theorem_files] + ["Extract/Extract.vo"], theorem_files)
    if not proof_ok:
        chk.notes.append("PROOF GATE BROKEN: " + why)
    okh, outh = chk.build_harness(race=race)
    if not okh:
        chk.notes.append("harness build failed: " + outh)
        chk.violation("harness-build", {"broken": "harness does not build against /repo", "detail": outh}, found_input=False)
        chk.finish(level)
    okm, outm = chk.build_model()
    if not okm:
        chk.notes.append("model build failed (extraction): " + outm)
    monitor_hits = 0
    corr_breaks = []
    rules = []
    dist = {}
    for i, r in enumerate(runs):
        n = r["thorough"] if tier == "thorough" else r["quick"]
        shards = r.get("shards_thorough", 1) if tier == "thorough" else 1
        # the shards of a run are independent processes (own seed, own output files, own node directories): run them side by side
        def one(sh_i, r=r, n=n):
            return chk.run_harness(r["cmd"], n, f"{r['cmd']}_{sh_i}", r.get("extra", ""), seed=seed + 7919 * sh_i,
                                   timeout=r.get("timeout", 1500) * (2 if shards > 1 else 1), race=race)
        if shards > 1:
            from concurrent.futures import ThreadPoolExecutor
            with ThreadPoolExecutor(max_workers=min(shards, 8)) as ex:
                shard_results = list(ex.map(one, range(shards)))
        else:
            shard_results = [one(0)]
        for sh_i in range(shards):
            st, cases, raw = shard_results[sh_i]
            if st is None:
                chk.notes.append(f"harness {r['cmd']} failed: {raw}")
                chk.violation(f"harness-{r['cmd']}", {"broken": f"harness command {r['cmd']} crashed", "detail": raw}, found_input=False)
                continue
            chk.cov["evaluations"] += st["cases"]
            chk.cov["distinct_nontrivial"] += st["distinct_nontrivial"]
            chk.cov["traces_validated_against_impl"] += st["cases"]
            if st.get("rule") and st["rule"] not in rules:
                rules.append(st["rule"])
            for k, v in (st.get("distribution") or {}).items():
                dist[f"{r['cmd']}:{k}"] = dist.get(f"{r['cmd']}:{k}", 0) + v
            if len(chk.cov["samples"]) < 6:
                chk.cov["samples"].extend((st.get("samples") or [])[:2])
            if st.get("extra"):
                chk.cov.setdefault("extra", {})[r["cmd"]] = st["extra"]
            # monitors: direct evaluation of the property on the implementation's behaviour
            for mf in st.get("monitor_failures") or []:
                key = mf.get("key", "")
                if not key.lower().startswith(pid.lower()):
                    continue   # a monitor of another property sharing this harness command
                if chk.known_finding(key, mf.get("what", "")):
                    continue
                monitor_hits += 1
                if monitor_hits <= 3:
                    chk.violation(f"monitor-{r['cmd']}-{monitor_hits}", {"kind": "property monitor failed on the implementation",
                                                                          "what": mf.get("what"), "key": key, "replay": mf.get("replay"),
                                                                          "harness_cmd": f"vharness {r['cmd']} -seed {seed + 7919 * sh_i} -n {n} {r.get('extra', '')}"})
            if r.get("model", True) and okm:
                mism, summ = chk.run_model(cases)
                if mism is None:
                    chk.notes.append("modelrun failed: " + str(summ))
                    corr_breaks.append({"cmd": r["cmd"], "mismatch": "modelrun crashed: " + str(summ)})
                else:
                    chk.cov.setdefault("model_runs", []).append(f"{r['cmd']}: {summ}")
                    for m in mism[:3]:
                        corr_breaks.append({"cmd": r["cmd"], "mismatch": m})
                if sh_i == 0 and proof_ok and vm_k:
                    okv, det = chk.cross_check_vm(cases, vm_k)
                    chk.cov.setdefault("vm_compute_cross_check", []).append(f"{r['cmd']}: {det}")
                    if not okv:
                        corr_breaks.append({"cmd": r["cmd"], "mismatch": "vm_compute cross-check disagrees: " + det})
    chk.cov["rule"] = " || ".join(rules) + rule_extra
    chk.cov["distribution"] = dist
    if post:
        post(chk)
    if corr_breaks and monitor_hits == 0:
        # correspondence broken, the monitors found no concrete failing input
        chk.violation("correspondence", {"broken": "correspondence between the Coq model and the implementation",
                                         "mismatches": corr_breaks}, found_input=False)
    if not proof_ok and monitor_hits == 0 and not corr_breaks:
        chk.violation("proof-gate", {"broken": "proof obligation no longer checks", "detail": why,
                                     "theorem_files": theorem_files}, found_input=False)
    elif not proof_ok and monitor_hits == 0 and corr_breaks:
        pass  # already reported through the correspondence replay
    chk.finish(level)
