"""Per-property configuration of the check flow."""
import json, sys, glob
from flow import standard

def corpus(pid):
    return " ".join(sorted(glob.glob(f"/verif/corpus/{pid}/*.ops")))

P = {
    "C13": dict(theorems=["Properties/C13.v"],
                runs=[dict(cmd="c13", quick=4000, thorough=200000, shards_thorough=4),
                      dict(cmd="pool3", quick=250, thorough=20000, shards_thorough=4, extra=corpus("C14")),
                      dict(cmd="float", quick=5000, thorough=300000)]),
    "C14": dict(theorems=["Properties/C14.v"],
                runs=[dict(cmd="pool3", quick=400, thorough=30000, shards_thorough=6, extra=corpus("C14")),
                      dict(cmd="float", quick=8000, thorough=400000)]),
    "C20": dict(theorems=["Properties/C20.v"],
                runs=[dict(cmd="c20", quick=3000, thorough=200000, shards_thorough=4)]),
    "C09": dict(theorems=["Properties/C09.v"],
                runs=[dict(cmd="appdb", quick=300, thorough=20000, shards_thorough=4),
                      dict(cmd="c09", quick=16, thorough=600, shards_thorough=8, model=False)]),
}


def run(pid, tier, seed):
    if pid not in P:
        print(f"unknown property {pid}")
        sys.exit(2)
    cfg = P[pid]
    standard(pid, tier, seed, cfg["theorems"], cfg["runs"], level=cfg.get("level", "proof"),
             vm_k=cfg.get("vm_k", 40), post=cfg.get("post"))


def replay(pid, path):
    r = json.load(open(path))
    print(json.dumps(r, indent=1)[:4000])
    # re-run the recorded harness command against the current tree
    import subprocess
    cmd = r.get("harness_cmd")
    if cmd:
        subprocess.call("/verif/bin/build_harness.sh && cd /verif/work && /verif/harness/bin/" + cmd + " -out replay.txt -stats replay.json && /verif/ocaml/modelrun replay.txt | tail -3; python3 -c \"import json;print(json.load(open('replay.json'))['monitor_failures'])\"", shell=True)
