"""Per-property configuration of the check flow."""
import json, sys, glob
from flow import standard

def corpus(pid):
    return " ".join(sorted(glob.glob(f"/verif/corpus/{pid}/*.ops")))

P = {
    "C13": dict(theorems=["Properties/C13.v"],
                runs=[dict(cmd="c13", quick=4000, thorough=200000, shards_thorough=4),
                      dict(cmd="pool3", quick=250, thorough=20000, shards_thorough=4, extra=corpus("C14")),
                      dict(cmd="float", quick=5000, thorough=300000)]),
    "C14": dict(theorems=["Properties/C14.v"],
                runs=[dict(cmd="pool3", quick=400, thorough=30000, shards_thorough=6, extra=corpus("C14")),
                      dict(cmd="float", quick=8000, thorough=400000)]),
    "C20": dict(theorems=["Properties/C20.v"],
                runs=[dict(cmd="c20", quick=3000, thorough=200000, shards_thorough=4)]),
    "C19": dict(theorems=["Properties/C19.v"],
                runs=[dict(cmd="c19", quick=60, thorough=4000, shards_thorough=8)], vm_k=6),
    "C23": dict(theorems=["Properties/C23.v"],
                runs=[dict(cmd="c23", quick=1200, thorough=60000, shards_thorough=6),
                      dict(cmd="c23ms", quick=1, thorough=1, model=False)], vm_k=20),
    "C28": dict(theorems=["Properties/C28.v"],
                runs=[dict(cmd="c28", quick=40, thorough=3000, shards_thorough=8)], vm_k=12),
    "C09": dict(theorems=["Properties/C09.v"],
                runs=[dict(cmd="appdb", quick=300, thorough=20000, shards_thorough=4),
                      dict(cmd="c09", quick=16, thorough=600, shards_thorough=8, model=False)]),
}


def run(pid, tier, seed):
    if pid not in P:
        print(f"unknown property {pid}")
        sys.exit(2)
    cfg = P[pid]
    standard(pid, tier, seed, cfg["theorems"], cfg["runs"], level=cfg.get("level", "proof"),
             vm_k=cfg.get("vm_k", 40), post=cfg.get("post"))


def replay(pid, path):
    r = json.load(open(path))
    print(json.dumps(r, indent=1)[:4000])
    # re-run the recorded harness command against the current tree
    import subprocess
    cmd = r.get("harness_cmd")
    if cmd:
        subprocess.call("/verif/bin/build_harness.sh && cd /verif/work && /verif/harness/bin/" + cmd + " -out replay.txt -stats replay.json && /verif/ocaml/modelrun replay.txt | tail -3; python3 -c \"import json;print(json.load(open('replay.json'))['monitor_failures'])\"", shell=True)

HOOK_COMMITS = ["5aa5cc2", "022b891"]
NOT_YET = {}
TB = ("Trusted: Coq kernel + vm_compute; no axioms (Print Assumptions checked each run); extraction ExtrOcamlBasic+ExtrOcamlZBigInt cross-checked by "
      "vm_compute on a sample each run; translators (harness/cmd/xlate), Go harness, OCaml driver; the Go source is modelled, tied by regenerated "
      "constants and differential execution; math/big, IAVL, tm-db, crypto trusted. ")
META = {
    "C13": dict(text="Theorems over unbounded Z for every reserve, amount and order book: plain trades and order-crossing trades (for ANY value of the float/sqrt oracle) keep r0*r1 and leave reserves positive; add-then-remove and proportional-share bounds; minimum liquidity. The Coq model is the transliterated PairV2 arithmetic and is run against the real PairV2 on every check (pure ops, stateful pool+orders histories with commits/restarts, big.Float ops).",
                note=TB + "Caches of orderV2.go (lazy loading) are not modelled: compared with the abstract book differentially. 'Minimum liquidity stays locked at the zero address' relies on C05 (nobody signs for the zero address).",
                technique="Coq proof (nia/lia over Z, induction over the order book) + differential correspondence + monitors"),
    "C14": dict(text="Theorems: a taker trade consumes the abstract book (sorted by 53-bit price key, then id) as a prefix, all fills complete except possibly the last, each fill within one unit of the order's price, remainder keeps the price, little orders closed with exact refund, cancel exact and only once. The abstract book is compared with the real cached/lazily-loaded book after every operation of generated histories (adds, trades, cancels, commits, restarts).",
                note=TB + "PARTIAL in one respect: rmi_spec/rdi_spec (Float.SetRat(q).Int() is floor or floor+1) is a hypothesis of the price theorem, validated on every sampled call by a monitor, not proved for Model/Float.v. Order expiry is exercised at node level only.",
                technique="Coq proof (induction over the book) + differential refinement check against the real order caches + monitors"),
    "C20": dict(text="Theorem: a proposal takes effect iff its support is strictly more than 2/3 of the present power (integers), at most one can, and the halt rule likewise; the real Blockchain decision functions are run on generated and boundary power/vote vectors (3v=2t±2, 10^40 magnitudes) through a verif accessor and compared with the model and with the integer inequality.",
                note=TB + "Vote transactions (past heights, duplicate votes) are exercised by the ledger histories, not modelled here.",
                technique="Coq proof (lia, induction over proposals) + differential + exact-arithmetic monitor"),
    "C19": dict(text="Theorems over unbounded Z for every stake vector: the per-block accrual conserves reward+fees, only present non-dropped validators accrue their floor share, dropped validators' rewards return to the pool, the remainder sent to total-slashed is never negative; PayRewardsV5Fix never pays more than accrued plus the locked-stake surplus it adds to the emission, its 'Negative remainder' panic is unreachable, and the split is 10%/10%/commission/bip-share with the property's literals. The model (EndBlock accrual and PayRewardsV5Fix transliterated) is run against the real node block by block: accumulated rewards after every block and the RewardEvents of every payout.",
                note=TB + "Validator-set changes in the middle of a period (SetNewValidators carrying accumulated rewards over) are checked by a monitor on the node, not modelled.",
                technique="Coq proof (nia/lia over Z, induction over validators and stakes) + differential correspondence against the real node + monitors"),
    "C23": dict(
        text="Theorems: the RLP codec is a bijection between well-formed items and accepted byte strings "
             "(decode(encode i)=i; decode b = i -> encode i = b; so no value has a second accepted encoding and every "
             "non-canonical string is rejected), likewise for the typed layer (uint64/uint32/byte/big.Int without leading "
             "zeros and with width checks; Transaction, Signature, Check structs with exact arity); validate_sig accepts "
             "exactly V in {27,28}, 0<r<N, 0<s<=N/2, hence the high-S twin and any other V are rejected; the signed bytes "
             "determine all nine signed fields and a sender exists only as recover(keccak(signed bytes), V-27, r, s). "
             "The model is run against the real rlp.DecodeBytes (generic tree, Transaction, Check, Signature), "
             "Executor.DecodeFromBytes and RecoverPlain on valid encodings, 13 kinds of structured non-canonical variants "
             "(top level, inside signature, inside data), high-S twins, bad V, moved signatures, bit flips and random bytes; "
             "monitors check re-encoding equality, sender = signing key, and rejection of tampered signatures.",
        note=TB + "secp256k1 recovery and Keccak are Section parameters (trusted). The per-type Data structs and SignatureMulti "
             "are covered by the re-encoding monitors only, not modelled. KNOWN FINDING (recorded, not repaired): multisig-signed "
             "transactions are third-party malleable (vharness c23ms).",
        technique="Coq proof (induction with fuel over the item tree, big-endian arithmetic by lia) + differential "
                  "byte-level fuzz against the real decoders + monitors"),
    "C28": dict(
        text="Theorems over unbounded Z for every history of blocks: BeginBlock changes reward / safe reward / price record only on a period-start block with hour 12..14 and more than 3 h after the stored update (or zeroes them at the cap), and does update there; the percentage is the floor of the exact change (drop iff new price < 91 % of the stored one); a drop gives validators' reward 0, off, safe = price-derived; recovery adds exactly 10 BIP per qualifying update up to the price-derived level (closed form for n updates); below the cap every block adds exactly the safe reward to the emission, credits safe-reward to the zero address and mints reward+burn (= emission growth in all reachable states); at/after the 10^10 BIP cap nothing changes any more and rewards are 0 (induction over histories); the cap can be overshot by less than one block's reward; the t.IsZero() branch is dead after InitChain; a zero stored reserve panics. Constants (cap, 350, 1e18, 100, -10, 10 BIP, 12/14 h, 3 h, offset 1) are regenerated from the Go source by xlate. The model runs against the real node block by block (reward, safe reward, stored record, emission, zero-address credit, minted base coin) and against AppDB.UpdatePriceFix alone on boundary inputs.",
        note=TB + "PARTIAL in one value: priceCount = Int(350*1e18*(r1/r0)^0.25) (math.Pow) is an oracle, validated on every observed value against the exact integer 4th root within 2^-40 (+1 pip); observed agreement >= 57 bits. UpdatePriceBug (before v320) and the one-off v330 emission fix are not modelled. A genesis price record with a zero reserve (cannot come from an export: reserves of an existing pool are positive) panics in the first window: excluded from the generators (wf_genesis), theorem C28_zero_stored_reserve_panics states it, replay `vharness c28 ... zerobip`.",
        technique="Coq proof (lia, induction over histories / update lists) + regenerated constants + differential correspondence on the real node and on AppDB + monitors"),
    "C09": dict(text="Theorem (appdb layer, complete): for every history of blocks (arbitrary programs over the appdb API) with any restarts, every getter (height, hash, validators, block times, versions, emission, price) returns what a never-restarted node returns; tied to the source by a translator (Commit write order, Save* guards, dirty-flag assignments) and by running random programs against the real AppDB. Node level: generated histories executed straight and with restarts on the real node, comparing responses, app hashes, emission, exports.",
                note=TB + "PARTIAL: caches of the state modules (order book, candidates, ...) are not modelled; for them only the node-level restart differential speaks.",
                technique="Coq proof (invariant: caches coherent with disk after Commit) + regenerated code shape + differential (AppDB programs, node restarts)"),
}
