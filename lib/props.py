"""Per-property configuration of the check flow."""
import json, sys, glob
from flow import standard

def corpus(pid):
    return " ".join(sorted(glob.glob(f"/verif/corpus/{pid}/*.ops")))

P = {
    "C13": dict(theorems=["Properties/C13.v"],
                runs=[dict(cmd="c13", quick=4000, thorough=100000, shards_thorough=4),
                      dict(cmd="pool3", quick=250, thorough=10000, shards_thorough=4, extra=corpus("C14")),
                      dict(cmd="float", quick=5000, thorough=150000)]),
    "C14": dict(theorems=["Properties/C14.v"],
                runs=[dict(cmd="pool3", quick=400, thorough=10000, shards_thorough=6, extra=corpus("C14")),
                      dict(cmd="float", quick=8000, thorough=150000)]),
    "C20": dict(theorems=["Properties/C20.v"],
                runs=[dict(cmd="c20", quick=3000, thorough=100000, shards_thorough=4)]),
    "C19": dict(theorems=["Properties/C19.v"],
                runs=[dict(cmd="c19", quick=60, thorough=800, shards_thorough=8)], vm_k=6),
    "C23": dict(theorems=["Properties/C23.v"],
                runs=[dict(cmd="c23", quick=1200, thorough=15000, shards_thorough=6),
                      dict(cmd="c23ms", quick=1, thorough=1, model=False)], vm_k=20),
    "C28": dict(theorems=["Properties/C28.v"],
                runs=[dict(cmd="c28", quick=40, thorough=300, shards_thorough=8)], vm_k=12),
    "C01": dict(theorems=["Properties/C01.v"],
                runs=[dict(cmd="c01", quick=10, thorough=300, shards_thorough=8, model=False),
                      dict(cmd="ledger", quick=60, thorough=1200, shards_thorough=8)], vm_k=4),
    "C02": dict(theorems=["Properties/C02.v"],
                runs=[dict(cmd="c02", quick=10, thorough=300, shards_thorough=8),
                      dict(cmd="ledger", quick=60, thorough=1200, shards_thorough=8)], vm_k=4),
    "C03": dict(theorems=["Properties/C03.v"],
                runs=[dict(cmd="c03", quick=80, thorough=1200, shards_thorough=8),
                      dict(cmd="c03node", quick=30, thorough=400, shards_thorough=8, model=False)], vm_k=4),
    "C04": dict(theorems=["Properties/C04.v"],
                runs=[dict(cmd="c04", quick=80, thorough=1200, shards_thorough=8),
                      dict(cmd="c04node", quick=10, thorough=200, shards_thorough=8, model=False)], vm_k=4),
    "C05": dict(theorems=["Properties/C05.v"],
                runs=[dict(cmd="c05", quick=80, thorough=1200, shards_thorough=8),
                      dict(cmd="c05node", quick=8, thorough=200, shards_thorough=8)], vm_k=4),
    "C06": dict(theorems=["Properties/C06.v"],
                runs=[dict(cmd="c06", quick=80, thorough=1200, shards_thorough=8),
                      dict(cmd="c06node", quick=10, thorough=300, shards_thorough=8, model=False)], vm_k=4),
    "C21": dict(theorems=["Properties/C21.v"],
                runs=[dict(cmd="c21", quick=80, thorough=1200, shards_thorough=8)], vm_k=4),
    "C22": dict(theorems=["Properties/C22.v"],
                runs=[dict(cmd="c22", quick=80, thorough=1200, shards_thorough=8)], vm_k=4),
    "C26": dict(theorems=["Properties/C26.v"],
                runs=[dict(cmd="c26", quick=80, thorough=1200, shards_thorough=8),
                      dict(cmd="c26node", quick=10, thorough=200, shards_thorough=8, model=False)], vm_k=4),
    "C27": dict(theorems=["Properties/C27.v"],
                runs=[dict(cmd="c27", quick=80, thorough=1200, shards_thorough=8),
                      dict(cmd="c27node", quick=10, thorough=200, shards_thorough=8)], vm_k=4),
    "C16": dict(theorems=["Properties/C16.v"],
                runs=[dict(cmd="c16", quick=6, thorough=30, shards_thorough=8)], vm_k=4),
    "C17": dict(theorems=["Properties/C17.v"],
                runs=[dict(cmd="c17", quick=9, thorough=50, shards_thorough=8)], vm_k=3),
    "C18": dict(theorems=["Properties/C18.v"],
                runs=[dict(cmd="c18", quick=30, thorough=250, shards_thorough=8)], vm_k=12),
    "C10": dict(theorems=["Properties/C10.v"], runs=[dict(cmd="c10", quick=8, thorough=10, shards_thorough=8)], vm_k=4),
    "C29": dict(theorems=["Properties/C29.v"], runs=[dict(cmd="c29", quick=8, thorough=30, shards_thorough=8)], vm_k=4),
    "C12": dict(theorems=["Properties/C12.v"],
                runs=[dict(cmd="c12", quick=6000, thorough=120000, shards_thorough=4),
                      dict(cmd="c12tx", quick=40, thorough=800, shards_thorough=8)], vm_k=44),
    "C24": dict(theorems=["Properties/C24.v"],
                runs=[dict(cmd="c24", quick=300, thorough=4000, shards_thorough=4)], vm_k=40),
    "C07": dict(theorems=["Properties/C07.v"],
                runs=[dict(cmd="c07", quick=10, thorough=150, shards_thorough=8, model=False)]),
    "C08": dict(theorems=["Properties/C08.v"],
                runs=[dict(cmd="c08", quick=6, thorough=20, shards_thorough=6, model=False, extra="procs=4", timeout=3000)], vm_k=0),
    "C11": dict(theorems=["Properties/C11.v"],
                runs=[dict(cmd="c11", quick=40, thorough=200, shards_thorough=8, timeout=3000)], vm_k=12),
    "C15": dict(theorems=["Properties/C15.v"],
                runs=[dict(cmd="c15", quick=100, thorough=2000, shards_thorough=8)], vm_k=6),
    "C25": dict(theorems=["Properties/C25.v"], race=True, vm_k=0,
                runs=[dict(cmd="c25", quick=2, thorough=12, shards_thorough=4, model=False, timeout=3000,
                           extra="/verif/coq/Generated/Locks.unguarded.txt")]),
    "C09": dict(theorems=["Properties/C09.v"],
                runs=[dict(cmd="appdb", quick=300, thorough=10000, shards_thorough=4),
                      dict(cmd="c09", quick=16, thorough=120, shards_thorough=8, model=False)]),
}


def run(pid, tier, seed):
    if pid not in P:
        print(f"unknown property {pid}")
        sys.exit(2)
    cfg = P[pid]
    standard(pid, tier, seed, cfg["theorems"], cfg["runs"], level=cfg.get("level", "proof"),
             vm_k=cfg.get("vm_k", 40), post=cfg.get("post"), race=cfg.get("race", False))


def replay(pid, path):
    r = json.load(open(path))
    print(json.dumps(r, indent=1)[:4000])
    # re-run the recorded harness command against the current tree
    import subprocess
    cmd = r.get("harness_cmd")
    if cmd:
        subprocess.call("/verif/bin/build_harness.sh && cd /verif/work && /verif/harness/bin/" + cmd + " -out replay.txt -stats replay.json && /verif/ocaml/modelrun replay.txt | tail -3; python3 -c \"import json;print(json.load(open('replay.json'))['monitor_failures'])\"", shell=True)

HOOK_COMMITS = ["5aa5cc2", "022b891", "48f2d61"]
NOT_YET = {}
PENDING = set()   # built, but not yet quiet on the unchanged tree: not claimed in MANIFEST.json until it is
TB = ("Trusted: Coq kernel + vm_compute; no axioms (Print Assumptions checked each run); extraction ExtrOcamlBasic+ExtrOcamlZBigInt cross-checked by "
      "vm_compute on a sample each run; translators (harness/cmd/xlate), Go harness, OCaml driver; the Go source is modelled, tied by regenerated "
      "constants and differential execution; math/big, IAVL, tm-db, crypto trusted. ")
LM = ('Ledger model (coq/Model/Ledger.v): ExecutorV3.RunTx gate (chain id, gas coin, payload limits, multisig signatures with the uint32 weight sum, nonce, price), Run of ten transaction types '
      '(Send, Multisend, Create/Recreate/Mint/Burn token, Lock, RedeemCheck, CreateMultisig, EditCoinOwner) as validate-then-effects, the failed-transaction fee branch, the ticker-fee burn, frozen-fund maturity; '
      'run against the real node transaction by transaction (check mode on the in-flight state, then DeliverTx: code, payer balance, nonce, reward pool) and block by block (all balances, nonces, coins, owners). ')
LN = TB + ("MODELLED SUBSET: ten transaction types, base-coin price table, gas coin = base coin (a custom gas coin without pool/reserve route is modelled as 'cannot pay'); swap-pool, bancor, staking and governance transactions are not in this model "
           "(pools/orders: C13/C14 models; staking: C16-C18; rewards: C19/C28) - for them only the node-level monitors speak. Signature recovery is abstract: recovered signers / proof verdicts are inputs computed by the real crypto. ")
META = {
    "C13": dict(text="Theorems over unbounded Z for every reserve, amount and order book: plain trades and order-crossing trades (for ANY value of the float/sqrt oracle) keep r0*r1 and leave reserves positive; add-then-remove and proportional-share bounds; minimum liquidity. The Coq model is the transliterated PairV2 arithmetic and is run against the real PairV2 on every check (pure ops, stateful pool+orders histories with commits/restarts, big.Float ops).",
                note=TB + "Caches of orderV2.go (lazy loading) are not modelled: compared with the abstract book differentially. 'Minimum liquidity stays locked at the zero address' relies on C05 (nobody signs for the zero address).",
                technique="Coq proof (nia/lia over Z, induction over the order book) + differential correspondence + monitors"),
    "C14": dict(text="Theorems: a taker trade consumes the abstract book (sorted by 53-bit price key, then id) as a prefix, all fills complete except possibly the last, each fill within one unit of the order's price, remainder keeps the price, little orders closed with exact refund, cancel exact and only once. The abstract book is compared with the real cached/lazily-loaded book after every operation of generated histories (adds, trades, cancels, commits, restarts).",
                note=TB + "PARTIAL in one respect: rmi_spec/rdi_spec (Float.SetRat(q).Int() is floor or floor+1) is a hypothesis of the price theorem, validated on every sampled call by a monitor, not proved for Model/Float.v. Order expiry is exercised at node level only.",
                technique="Coq proof (induction over the book) + differential refinement check against the real order caches + monitors"),
    "C20": dict(text="Theorem: a proposal takes effect iff its support is strictly more than 2/3 of the present power (integers), at most one can, and the halt rule likewise; the real Blockchain decision functions are run on generated and boundary power/vote vectors (3v=2t±2, 10^40 magnitudes) through a verif accessor and compared with the model and with the integer inequality. The table those functions read is modelled too (Model/PowerTable.v = calculatePowers): only validators recorded as having signed the last block and not being dropped are in it; an absent, missing or dropped validator changes neither the total nor any vote sum, whether or not it voted (C20_only_present_validators_count, C20_table_members, C20_halt_by_present_power); tie: model 23 and a monitor on a real chain whose blocks carry signed / absent / missing commit-info entries.",
                note=TB + "Vote transactions (past heights, duplicate votes) are exercised by the ledger histories, not modelled here.",
                technique="Coq proof (lia, induction over proposals) + differential + exact-arithmetic monitor"),
    "C19": dict(text="Theorems over unbounded Z for every stake vector: the per-block accrual conserves reward+fees, only present non-dropped validators accrue their floor share, dropped validators' rewards return to the pool, the remainder sent to total-slashed is never negative; PayRewardsV5Fix never pays more than accrued plus the locked-stake surplus it adds to the emission, its 'Negative remainder' panic is unreachable, and the split is 10%/10%/commission/bip-share with the property's literals. The model (EndBlock accrual and PayRewardsV5Fix transliterated) is run against the real node block by block: accumulated rewards after every block and the RewardEvents of every payout.",
                note=TB + "Validator-set changes in the middle of a period (SetNewValidators carrying accumulated rewards over) are checked by a monitor on the node, not modelled.",
                technique="Coq proof (nia/lia over Z, induction over validators and stakes) + differential correspondence against the real node + monitors"),
    "C23": dict(
        text="Theorems: the RLP codec is a bijection between well-formed items and accepted byte strings "
             "(decode(encode i)=i; decode b = i -> encode i = b; so no value has a second accepted encoding and every "
             "non-canonical string is rejected), likewise for the typed layer (uint64/uint32/byte/big.Int without leading "
             "zeros and with width checks; Transaction, Signature, Check structs with exact arity); validate_sig accepts "
             "exactly V in {27,28}, 0<r<N, 0<s<=N/2, hence the high-S twin and any other V are rejected; the signed bytes "
             "determine all nine signed fields and a sender exists only as recover(keccak(signed bytes), V-27, r, s). "
             "The model is run against the real rlp.DecodeBytes (generic tree, Transaction, Check, Signature), "
             "Executor.DecodeFromBytes and RecoverPlain on valid encodings, 13 kinds of structured non-canonical variants "
             "(top level, inside signature, inside the signature data of multisig transactions, inside data), high-S twins, bad V, moved signatures, bit flips and random bytes; "
             "monitors check re-encoding equality, sender = signing key, and rejection of tampered signatures.",
        note=TB + "secp256k1 recovery and Keccak are Section parameters (trusted). The per-type Data structs and SignatureMulti "
             "are covered by the re-encoding monitors only, not modelled. KNOWN FINDING (recorded, not repaired): multisig-signed "
             "transactions are third-party malleable (vharness c23ms).",
        technique="Coq proof (induction with fuel over the item tree, big-endian arithmetic by lia) + differential "
                  "byte-level fuzz against the real decoders + monitors"),
    "C28": dict(
        text="Theorems over unbounded Z for every history of blocks: BeginBlock changes reward / safe reward / price record only on a period-start block with hour 12..14 and more than 3 h after the stored update (or zeroes them at the cap), and does update there; the percentage is the floor of the exact change (drop iff new price < 91 % of the stored one); a drop gives validators' reward 0, off, safe = price-derived; recovery adds exactly 10 BIP per qualifying update up to the price-derived level (closed form for n updates); below the cap every block adds exactly the safe reward to the emission, credits safe-reward to the zero address and mints reward+burn (= emission growth in all reachable states); at/after the 10^10 BIP cap nothing changes any more and rewards are 0 (induction over histories); the cap can be overshot by less than one block's reward; the t.IsZero() branch is dead after InitChain; a zero stored reserve panics. Constants (cap, 350, 1e18, 100, -10, 10 BIP, 12/14 h, 3 h, offset 1) are regenerated from the Go source by xlate. The model runs against the real node block by block (reward, safe reward, stored record, emission, zero-address credit, minted base coin) and against AppDB.UpdatePriceFix alone on boundary inputs.",
        note=TB + "PARTIAL in one value: priceCount = Int(350*1e18*(r1/r0)^0.25) (math.Pow) is an oracle, validated on every observed value against the exact integer 4th root within 2^-40 (+1 pip); observed agreement >= 57 bits. UpdatePriceBug (before v320) and the one-off v330 emission fix are not modelled. A genesis price record with a zero reserve (cannot come from an export: reserves of an existing pool are positive) panics in the first window: excluded from the generators (wf_genesis), theorem C28_zero_stored_reserve_panics states it, replay `vharness c28 ... zerobip`.",
        technique="Coq proof (lia, induction over histories / update lists) + regenerated constants + differential correspondence on the real node and on AppDB + monitors"),
    "C01": dict(text="Theorems (induction over histories): for every history of transactions and block phases of the ledger model, every custom coin keeps volume = balances + frozen funds, and base-coin holdings + reward pool change only by what EndBlock hands to the reward accrual (whose own conservation is C19; emission C28; pool trades C13). " + LM + "The whole node (all 38 transaction types, rewards, slashing, orders) is watched by a monitor that recomputes every sum of the property from the export after every block.",
                note=LN + "The base-coin emission statement at node level is checked by the monitor; in Coq it is split into C01 (transactions), C19 (accrual/payout), C28 (emission).",
                technique="Coq proof (effect-list algebra, induction over histories) + differential correspondence on the real node + conservation monitor on node exports"),
    "C02": dict(text="Theorem (induction over histories): along every history of block phases and well-formed transactions of the ledger model every balance and frozen fund stays >= 0 and every coin volume stays within [1, max supply] (guards of every transaction type incl. the multisend per-coin totals); pool reserves stay positive and payouts below reserves: C13 theorems; stake arithmetic: C17/C18. " + LM + "The whole node (all transaction types, rewards, slashing, orders) is watched by a monitor that checks the sign of every amount, volume <= max supply and reserves > 0 on the export after every block. Bancor coins (Model/CoinSupply.v = CheckForCoinSupplyOverflow / CheckReserveUnderflow and the volume/reserve updates of BuyCoin, SellCoin, SellAllCoin; formula results are arbitrary non-negative inputs): along any sequence of conversions the volume stays within [0, max supply] and the reserve at or above the minimum reserve, a purchase above the cap is refused with code 112 whatever its cost (C02_bancor_volume_within_max_supply, C02_purchase_above_cap_refused); tie: literals regenerated from the source, model 24 on the purchases of the supply-cap scenarios (coins a few units below their cap: headroom-1, headroom, headroom+1, multiples); creations of coins and tokens with the maximum just below / equal to the initial amount and at / above the global cap (ledger run, model 7; monitor c02-volume-above-max).",
                note=LN + "Bancor reserves/volumes, stakes, waitlist, order volumes: monitor on node exports + the arithmetic theorems of C12/C13/C14/C17/C18, not one invariant over the full node state.",
                technique="Coq proof (guard analysis per transaction type, invariant over histories) + differential correspondence on the real node + sign monitor on node exports"),
    "C03": dict(text="Theorems: a rejected DeliverTx leaves nonces, coins, owners, checks, multisigs, frozen funds untouched and changes exactly one balance - the payer's (sender / check issuer) gas-coin balance - by min(balance, failure fee), credited to the reward pool; an accepted one had the next nonce and advances exactly its sender's nonce by one; Run yields effects only after all checks passed. " + LM,
                note="Node-level frame monitor (c03node): for EVERY transaction kind of the workload (33 kinds, malformed bytes included) a rejected transaction that is the only one of its block leaves the export unchanged except for one account entry (the fee payer) and the block-level bookkeeping (accrued rewards, gas limit), on histories whose delegators also sit on the waitlist of the same candidate; fees paid in custom coins and sell-all kinds are left to the model. " + LN + "Found and repaired with this check: f5184b1 (CreateToken with gas price 0 was applied and then reported as failed).",
                technique="Coq proof (case analysis over Run by Ltac, effect-list algebra) + differential correspondence on the real node + frame monitors"),
    "C04": dict(text="Theorems: a transaction signed for another chain id is refused by check and deliver alike and changes nothing (C04_foreign_chain_rejected); acceptance implies chain id = network and nonce = last + 1; nonces never decrease along any history; once accepted, the same transaction or any transaction of that sender with a nonce not above it is rejected with the state untouched after any further history. " + LM + "The harness re-delivers earlier bytes, stale and future nonces. Node-level monitors for all 33 transaction kinds (c04node): an accepted transaction leaves its sender at exactly its nonce, and the signed bytes of an accepted transaction are never accepted again (same block, later blocks).",
                note=LN, technique="Coq proof (monotone nonce invariant over histories) + differential correspondence on the real node + replay monitors"),
    "C05": dict(text="Theorems: if any delivered transaction (accepted or rejected) decreases a balance of account a, the multisig gate passed and a is the sender or the issuer of the redeemed check; the multisig gate means: account exists, <= 32 and <= #owners signatures, all recoverable and distinct, uint32 weight sum of listed owners >= threshold. " + LM + "Candidate settings (Model/CandAuth.v, the two authorization checks of edit_candidate.go): along every history of EditCandidate / EditCandidateCommission / SetCandidateOn / SetCandidateOff the settings change only by the owner recorded right before the transaction and the switch flips only by that owner or control address, anybody else gets code 406 and changes nothing (C05_candidate_settings_by_owner_only, C05_candidate_unauthorized_rejected); tie: model 21 on every such transaction of node histories in which owners hand the control address to other accounts, which then try the owner-only operations (accepted => authorized, 406 => not). Monitors on the node: every balance decrease is attributable to the sender/payer; candidate-authorization monitor.",
                note=LN + "Of the candidate transactions only the authorization decision and the changed fields are modelled (their other checks are an oracle bit); EditCandidatePublicKey and the vote transactions are not. Stakes, waitlist, orders: node-level monitors of C14/C16/C18.",
                technique="Coq proof (sign analysis of effect lists) + differential correspondence on the real node + attribution monitor"),
    "C06": dict(text="Theorem: check mode accepts iff deliver mode on the same state accepts (gas-price floor 0, empty mempool); the deliver-only branches never flip the verdict. " + LM + "Every generated transaction is run through check-mode RunTx on the in-flight state and then delivered; verdicts compared.",
                note=LN + "Found and repaired with this check: f5184b1.",
                technique="Coq proof (shared validation, deliver-only branches total) + differential check-vs-deliver on the real node"),
    "C21": dict(text="Theorems: a successful redemption required block <= due block, right network, a proof valid for the redeemer, gas coin = the check's, gas price 1, check unused; it moves exactly value of coin issuer->redeemer and the fee from the issuer; the used set only grows; a check identity redeemed once is rejected forever after (any redeemer, any history, both modes). " + LM + "Checks are issued with real keys; forged, foreign, expired, wrong-network, replayed variants.",
                note=LN + "The code accepts the due block itself (DueBlock = last block in which the check can be used); the theorem states <=. ECDSA/Keccak trusted.",
                technique="Coq proof (monotone used-set invariant over histories) + differential correspondence on the real node + double-redemption monitor"),
    "C22": dict(text="Theorems: every creation uses id = counter + 1 and sets the counter; along any history ids stay <= counter and the counter never decreases (ids never reused); create requires an unused ticker and makes the sender owner; recreate / edit owner / mint only by the ticker owner; recreate versions the old coin (max+1 mod 2^16) and gives the new one a fresh id and version 0; mint only on the active mintable coin within max supply; ACTIVE TICKERS ARE UNIQUE along every history in which no recreation wraps a ticker's uint16 version counter (C22_active_tickers_unique: distinct ids, at most one version-0 coin per ticker, invariant by induction over operations), and the statement is refuted at the wrap (C22_unique_refuted_at_version_wrap; reproduced on the node from a genesis with an archived version 65535: KNOWN FINDING c22-version-wrap). " + LM + "Registry monitors on node exports (unique active tickers, unique ids, counter).",
                note=LN + "Pool-token creation (CreateSwapPool) is not in this model.",
                technique="Coq proof (per-type specifications, id and ticker-uniqueness invariants over histories, refutation witness at the version wrap) + differential correspondence on the real node + registry monitors"),
    "C26": dict(text="REFUTED for the code, proved: a transaction failing inside Run is charged the failure fee, keeps its nonce, and is charged again on re-delivery (C26_refuted, witness evaluated in Coq; reproduced on the node: KNOWN FINDING c26-failed-redelivery). Proved partial results: after a successful delivery every re-delivery is rejected with the state untouched; gate rejections never charge; one failing delivery costs at most the failure fee and at most the balance. " + LM + "The harness re-delivers earlier bytes (accepted and failed) and watches the payer. Node-level replay monitor (c26node): in histories of all 33 transaction kinds the signed bytes of accepted transactions are delivered again, right after their first delivery in the same block and in later blocks: never accepted twice; half of these histories start with waitlist entries and are unbond-heavy (the waitlist branch of Unbond).",
                note=LN + "Repair would need replay protection keyed by tx hash (new consensus state); C03 forbids advancing the nonce on failure: recorded as known finding, not patched.",
                technique="Coq proof (refutation witness + partial theorems) + differential correspondence on the real node + re-delivery monitor"),
    "C27": dict(text="Theorems: an accepted transaction paid in base coin adds gas price x (type price + (payload+service bytes) x byte price) to the reward pool, less the ticker fee of a coin creation which goes from the reward pool to the zero address; a rejected one adds at most the failed-transaction price; type prices per table entry (Multisend base + delta x (n-1), ticker by length). " + LM + "Monitor: reward-pool growth per accepted transaction against the price table. Route choice (Model/FeeRoute.v = CalculateCommission; C27_cheaper_route, C27_route_is_an_available_quote, C27_no_route_refused), tied by model 22 and a node-level route monitor (c27node): on histories with bancor coins that also have a pool to the base coin, for every accepted transaction paying its commission in such a coin the charged amount and the tx.commission_conversion tag must be the cheaper of formula.CalculateSaleAmount on the pre-state reserve and the pool quote on a pre-state copy of the pool (tie: pool).",
                note=LN + "Custom-coin commission (pool route vs reserve route) and a price table denominated in a custom coin are exercised at node level only (c01/c07 histories), not modelled.",
                technique="Coq proof (effect-list algebra) + differential correspondence on the real node + price-table monitor"),
    "C16": dict(text="Theorems for arbitrary positive periods (both chain ids positive; testnet values regenerated from the source incl. the LockStake period). Every Unbond, MoveStake, Lock, candidate removal and byzantine unbonding creates funds of exactly the leaving value (byzantine: floor 95 %), due at exactly h+UnbondPeriod, h+MovePeriod or the Lock's due block. No step other than the BeginBlock of a fund's own due height removes or pays it. Along histories with consecutive heights no fund is ever overdue, each is paid by exactly that BeginBlock, and only a byzantine slash may lower its value. MoveStake is accepted only towards an existing candidate; a matured move reaches its existing target candidate, or, if the target was removed in flight, is unbonded for one more unbond period; it is never credited to a balance at its maturity; no step panics. Unbond is rejected with 416 while LockStakeUntilBlock > block, changing nothing but the failed-transaction fee. The model is run against the real node per transaction and per block (codes, created funds, matured funds and what happened to each, staked totals).",
                note=TB + "MoveStake of a locked stake is accepted by design (the lock is per address, the moved coins stay blocked). Pending updates are not observable inside a block: wildcard, with end-of-block totals. Delegate's IsDelegatorStakeAllowed verdict is an input. Base gas coin only. Found and repaired with this check: 879f26e, 4f543a9, c9a3e76.",
                technique="Coq proof (effect algebra, induction over histories with the invariant due > height, lia) + regenerated constants + differential correspondence on the real node + monitors"),
    "C17": dict(text="Theorems over unbounded Z for every candidate list, stake vector and bip oracle: the selection is at most 64, all online with >=1000 BIP, non-increasing, a sub-multiset, and leaves no eligible candidate out unless all 64 seats hold at least its stake (equal stakes: larger ID first); power = max 1 floor(stake*10^8/total), monotone, <=10^8, division never panics; exactly the non-validators ranked beyond 100 are deleted and every stake and update becomes a frozen fund of equal value due at height+UnbondPeriod; with 1000 full slots an update replaces the first minimum-bip slot iff it is not smaller, the loser is kicked with its full value, nothing is lost per (owner, coin), totalBipStake = sum of slot bips, slots <= 1000, losers never exceed anyone who stays. The model is run against the real node for every updateValidators (genesis import + InitChain, period blocks, validator drops).",
                note=TB + "Custom-coin bip values enter as the coinsCache pair (B, V) computed with the real formula package. Holes in the slot array (after unbonds) are covered by the theorems but not generated by the harness. Found and repaired with this check: c13a3df (candidates removed at genesis import were frozen into the past).",
                technique="Coq proof (stable insertion sort, Permutation/StronglySorted, induction over slots and updates, lia) + regenerated constants + differential correspondence on the real node + monitors"),
    "C18": dict(text="Theorems over Z for every vote history and every stake/fund list: the 24-bit window holds exactly the misses of the last 24 heights; on the first block with more than 12 of 24 misses the validator is dropped, its candidate set offline, and jailed until h+JailPeriod iff the block is not a grace block, otherwise nothing happens; SetCandidateOnline is rejected exactly while block <= JailedUntil; the byzantine slash is the rounded-up 5 % (kept part floor(95v/100), fund + slash = v, due h+UnbondPeriod, stake 0), frozen funds of the candidate in [h, h+UnbondPeriod] likewise, all others untouched, total-slashed grows by the base-coin slashes plus the oracle sale returns; evidence against unknown/offline/non-validator addresses changes nothing; a second piece of evidence (same or later block) against the now offline candidate changes nothing, and the punished validator is never re-admitted by that block's validator update. The model is run against the real node: vote histories, switch-on attempts and every evidence block.",
                note=TB + "Grace bit, validator-list membership and the sale-return oracle are inputs observed or replayed (formula.CalculateSaleReturn) by the harness. Found and repaired with this check: b9d9852 (punished candidate stayed online: duplicate evidence slashed twice, pending delegations kept the validator in the set). Pending stake updates are not slashed (they are not 'stakes' in the property's vocabulary).",
                technique="Coq proof (induction over vote histories with a sliding-window invariant, lia over floor division) + regenerated constants + differential correspondence on the real node + monitors"),
    "C10": dict(
        text="Theorem on a three-store write-list model (events db, state db, appdb) whose write order and guards are regenerated from Blockchain.Commit, State.Commit, tree.Commit, CommitEvents and every AppDB.Save*: for every history, every block and EVERY crash position k within the Commit of that block, the restarted node reports a height the consensus engine can replay from, re-executing the resent block(s) reproduces the app hash, and all later observations (responses, hashes, every appdb getter, stored events) equal the uncrashed node's (C10_for_this_code, for the code as it is now: appdb records in one atomic batch, fix ba5358b). Kept for the record: the unbatched variant is refuted right after the height write (C10_unbatched_refuted) and recoverable exactly up to it (C10_crash_recoverable_partial, tight). Node level: all three databases are wrapped; after every single write of Commit the stores are copied, a fresh node is started on the copy, Info + resend, and the continuation is compared with the uncrashed node; the root of the state tree the recovered node opens must be the root committed for the height it reports (c10-loaded-state-is-not-the-committed-state); the logged write sequence is compared with the model's.",
        note=TB + "PARTIAL: caches of the state modules are not modelled (the C09 assumption). KNOWN FINDING c10-restart-after-initchain: InitChain computes the initial validator set after committing the genesis state, so a process restarted between InitChain and the first Commit executes block 1 on a different state. tm-db Set/batch atomicity and Tendermint's resend rule are trusted. Found and repaired with this check: ba5358b.",
        technique="Coq proof (prefix-replay simulation over the write list of three stores) + regenerated write order and guards + crash-injection differential on the real node"),
    "C11": dict(
        text="Export, Import and AppState.Verify are transliterated in Model/Genesis.v (accounts, coins, used checks, frozen funds, candidates with stake slots and pending updates and the import-time recalculation, waitlist merging, validators, pools, halt votes, commission table, counters, reward pair). Theorems: 'passes validation' is proved in full for every consistent state (C11_export_verifies; the token-with-frozen-funds counterexample found by this check was repaired by fix b66d393 and is kept as C11_verify_regression against the old rule); halt votes survive the round trip (C11_halt_votes_regression, fix 49ebe8c) and the candidate id counter is restored (C11_maxid_restored, fix 9497f5f); 'exports the same state again' is refuted as stated by a pending delegation (C11_roundtrip_refuted: Import recalculates stakes) and proved exactly at recalculation fixpoints (C11_roundtrip_partial, full record equality) and in general up to the next update block's recalculation (C11_roundtrip_general); hidden state and slot order (C11_hidden_state, C11_slots_refuted); 'behaves like the original' is proved for EVERY ledger continuation (C11_continues_alike: equal responses and a pointwise simulation of balances, nonces, owners, multisigs, used checks, frozen lists, coins, counters, prices). Tie: model 18 is run against the real node on every fork (Verify verdict on the export and on 19 corrupted copies, second export) and the node-level differential exports a generated history at a cut, starts a second chain from the export (real InitChain), exports again section by section, then runs 14-38 continuation blocks on both chains comparing responses, validator updates, emission, reward pair and full exports.",
        note=TB + "Modelled in Coq: the sections above. Node-level only: limit orders, candidate-bound frozen funds, removal of candidates ranked beyond 100 at import, jail/commission-edit heights, reward/control addresses, LockStakeUntilBlock, absence windows, block list, deleted candidates, commission/update votes, emission, versions, price record. The genesis is assembled as cmd/export.go does, but with InitialHeight h+1 (known finding c11-export-cmd-initial-height).",
        technique="Coq proof (refutation witnesses, exact round trip at fixpoints, simulation for every continuation) + differential correspondence of Export/Import/Verify against the real node + fork-and-continue differential"),
    "C15": dict(
        text="Theorems, all magnitudes, any bancor oracle values, positive reserves: a sell through pools credits at least the stated minimum (C15_sell_min), a buy debits at most the stated maximum (C15_buy_max), the tx.return/tx.sell_amount tags and the balance changes agree per coin for all coincidences of first, last and commission coin (C15_tags_truthful), sell-all spends exactly the balance minus commission (C15_sell_all_exact). Limits are enforced in the check phase only, and that phase's simulation of the commission swap is exact for every pool, both orientations and every route position (C15_simulation_exact, C15_check_amount_delivered: the amount compared with the limit IS the amount delivered). With limit orders on the commission pool the single-hop sale satisfies simulated = delivered (C15_simulation_exact_with_orders, C15_sell_min_with_orders). Tie: model 19 (SwapTx.v, SwapTxBook.v) against the real node, check mode and deliver mode per transaction, order-book op 20; scenarios replay the two repaired defects.",
        note=TB + "Multi-hop routes and buys through pools WITH limit orders are monitor-only. The failure fee is not modelled here (state re-synced after rejected deliveries; it is in the Ledger model). Gates other than commission-coin existence belong to the Ledger model. Bancor conversions use the formula results as oracle values (C12 speaks about them).",
        technique="Coq proof (lia/nia over Z, induction over routes and order books) + differential correspondence against the real node + monitors"),
    "C25": dict(
        text="Theorems: (1) in a threads-with-RWMutex semantics (Acq R|W / Rel / Read / Write, any interleaving) threads that are well bracketed, never re-acquire a mutex they hold, read a field only under one of its guard mutexes and write it only under all of them in W mode never reach a configuration in which two threads are about to access one field, one writing (C25_lockset_race_free); tables accepted by the decidable checker all_guarded induce such threads (C25_table_race_free); for the current tree every thread that stays away from the reported sites is race free (C25_repo_race_free_except_reported), the reported list being exactly what Coq computes from the regenerated table (C25_unguarded_sites). (2) queries that fill a cache atomically with the value the committed tree holds leave every executor output and the logical content unchanged for every interleaving (C25_memo_transparent, C25_memo_interleaving_independent); a fill whose absence check and store are two critical sections does not (C25_memo_nonatomic_refuted, the shape of Accounts.get). The access table (324 accesses to 52 shared fields of swap, candidates, accounts, validators, coins, waitlist, frozenfunds, appdb, minter with must-held locksets, caller-inherited locks, query reachability), the lock order graph, re-acquisitions and non-atomic fills are regenerated from /repo by a go/ast+go/types translator on every run. Search: generated histories replayed on the real node while 4 goroutines call the real api/v2/service handlers on the live state, in a -race build, in a child process; app hashes / responses / validator updates / emission compared with the run alone; a watchdog turns a hang into a goroutine dump; a targeted first-touch scenario for the non-atomic fill; a scripted history with a partially filled committed limit order and the order / pool / estimate handlers between its DeliverTx calls.",
        note=TB + "PARTIAL by nature: the discipline theorem is proved, the table is extracted by a conservative static analysis (trusted; must-locksets, fail-closed: an access it cannot attribute is emitted unguarded; lock identity = owning struct + field + base expression; interface calls by class hierarchy; function-typed fields by their bindings), real schedules are only sampled. Deadlock freedom is NOT a theorem: lock-order cycles and re-acquisitions are reported by the translator and searched at run time. sync/atomic fields, per-object field reads by the API layer (stake, Candidate, Limit fields read without the object's lock) are outside the table: only the race detector speaks. Export and the Load* methods run on private states only (checked syntactically on every run). Handler panics are caught by the gRPC recovery interceptor and are recorded, not counted. Findings: see known_findings.json (seven defects repaired in /repo: 259ab52, 67be03c, eee65ec, 301c0af, e3e65c2, 0dd8b12, a1c8ec3). Statically reported sites that are not defects are on a reviewed list pinned in Properties/C25.v (C25_static_sites_reviewed: per site an argument and source facts re-checked on every run); a lock removed around a tracked shared container breaks the proof gate (51 of the 94 Lock/RLock pairs of swapV2.go, accounts.go, candidates.go; the other 43 guard executor-only fields or plain per-object fields, whose unsynchronised reads by the API layer are recorded by the race build but cannot crash or perturb execution).",
        technique="Coq proof of the lockset discipline and of memoisation transparency + regenerated access table evaluated in Coq + race-detector / deadlock / perturbation search on the real node under real API handlers"),
    "C29": dict(
        text="Theorems: two nodes that committed the same blocks - with ANY restarts in between - produce identical snapshots (appdb disk records in the code's order + tree export); a node restored from a snapshot reports the producer's height and app hash; from then on it is observationally equal (responses, hashes, every appdb getter) to the producer for every continuation (simulation relation: the restored node has an empty events db and a single tree version). Tie: snapshot_records / restore_records / snapshot_reads_disk regenerated from snapshots.go. Node level: real cosmos-sdk snapshot store; producer A, producer B restarted at random heights (chunk bytes must be identical), restored node R driven through OfferSnapshot / ApplySnapshotChunk (every second one after all application-database getters were read on the still empty node), then the same continuation on A and R: Info, responses, hashes, getters, exports, appdb bytes.",
        note=TB + "IAVL export/import, zlib, protobuf and chunking are trusted and exercised. An emission of exactly 0 is excluded (empty record is skipped by Snapshot). The events db is not part of a snapshot: older events are absent on the restored node.",
        technique="Coq proof (disk determinism under restarts via the C09 coherence invariant; simulation) + regenerated snapshot record lists + real snapshot-store differential"),
    "C12": dict(
        text="Theorems over unbounded Z, every crr 10..100: the exact curve values (largest integers satisfying "
             "(y+s)^100 r^c <= (r+d)^c s^100 etc., computed by a verified bisection) are >= 0, <= reserve, monotone in the "
             "amount, sell-all = reserve, buy-then-sell <= paid; the integer branches of formula.go (amount 0, crr 100, "
             "sell = supply) equal the curve exactly; tolerance transfer; check_within decides "
             "|f-ideal| <= 2^-33 ideal + 1 exactly. The four real formula.Calculate* functions are called on sampled "
             "inputs and each result is checked by the extracted Coq checker and by direct monitors. At the transaction level (run c12tx): "
             "sell / buy / sell-all coin transactions on a real node are compared with model 19 (SwapTx.v: the amounts are the "
             "formulas applied to the curve without the fee when the fee came out of that coin's reserve) and the monitor "
             "c12-tx-off-curve recomputes tx.return with formula.Calculate* on that curve; theorem C12_tx_sell_all_on_the_curve_after_the_fee "
             "(any formula values): an accepted sell-all returns the sale-return formula on the curve after the fee.",
        note=TB + "PARTIAL: 'the 100-bit big.Float branch is within 2^-33*ideal+1' is validated on samples (observed max "
             "2^-43.9 for supply,reserve < 2^96), not proved; the round-trip transfer is proved only when the purchased "
             "amount does not exceed the curve. KNOWN FINDING c12-tolerance-above-2^96: supply > 2^96 breaks the tolerance (100-bit mantissa).",
        technique="Coq proof (bisection spec, monotone powers, nia/lia) + exact-arithmetic check of every sampled Go result + monitors"),
    "C24": dict(
        text="Theorem: for every history of AddEvent/CommitEvents/restart/LoadEvents on the events store "
             "(model of store.go+types.go with the Go integer widths as parameters) with at most 65534 distinct "
             "validator keys and 2^32-1 distinct addresses, every LoadEvents returns exactly the batch last "
             "committed at that height (all 12 event kinds, nil unbond keys, restarts anywhere); the full property "
             "('however many keys') is REFUTED in Coq at the real uint16 width (65535 keys + restart => nil "
             "dereference in reward.compile) and on the real store; the model is run against the real "
             "NewEventsStore over a MemDB incl. 65537 keys and 301000 addresses.",
        note=TB + "tmjson (de)serialisation abstract (identity), exercised by the differential. KNOWN FINDING "
             "c24-pubkey-id-wrap: pubkey ids are uint16 (store.go:242/248/256) - at 65535 distinct validator "
             "keys a restart loses the whole key table, the 65536th key gets id 0 ('no key'), the 65537th "
             "collides with id 1. A repair changes the on-disk id format (docs/proposals/c24_fix_proposal.patch); recorded, not applied.",
        technique="Coq proof (representation invariant over fold of operations; width-generic wrap lemmas; "
                  "vm_compute witness) + differential against the real store + field-by-field monitors"),
    "C07": dict(text="PARTIAL BY NATURE. Proved: every explicit crash site (panic / log.Panic / log.Fatal / os.Exit, ~200 sites) of the consensus packages, regenerated from the Go source on every run, is covered by the reviewed classification table (a new or moved site breaks the proof gate); the sites carried by the models are unreachable (negative balance at commit, reward 'Negative remainder', swap ErrorK/liquidity, payout and power divisions); the modelled executor and the decoders are total. Exercised, not proved: runtime faults outside explicit sites - scripted crash scenarios from earlier findings, generated histories with malformed transactions, absences, byzantine evidence and block-time walks, byte-level fuzz into DeliverTx and check-mode RunTx; a quarter of the redeemed checks are validly signed but carry a 62/66/73-byte lock or a nonce around the 16-byte limit; every ABCI call under recover().",
                note=TB + "Classes of the table: EnvError (storage/encoding errors: trusted environment), Legacy (executors and swap v1 unreachable at V330), NotConsensus, Proved, GuardedByCheck (transaction-level check precedes; validated by the harness only), ByDesign (halt: os.Exit). Nil dereferences, slice bounds, divisions by zero in unmodelled code, OOM and stack depth are outside what a theorem here can exhibit. Found and repaired with this check: f518499, 20acd05, c0a2cc6, 11ddaa1, e60f1c0.",
                technique="Coq proof (inventory coverage by computation, no-panic theorems of the models) + regenerated crash-site inventory + scenario/history/fuzz execution under recover()"),
    "C08": dict(
        text="Theorems over arbitrary entry/key types: collect-then-sort by an injective key, commutative folds, "
             "unique find/exists and per-entry updates of distinct records are independent of the iteration order "
             "(with counter-witnesses when the side condition fails), and every program built from these loops and "
             "deterministic code gives the same result for ANY two permutation oracles (C08_order_independent). "
             "Tie: the translator lists every range over a map (52 sites, 43 packages) and every go statement in the "
             "packages the consensus engine links, classifies each from its shape plus hash-pinned reviews, fails "
             "closed (Unknown/OrderDependent break C08_sites_classified). Differential: generated histories "
             "(std/crowd/ties/expiry) re-executed in separate OS processes with GOMAXPROCS in {1,4,16}, GOGC in "
             "{off,10,100}, with/without background snapshots; app hash, every ResponseDeliverTx, EndBlock and stored "
             "events compared per block.",
        note=TB + "PARTIAL: link between each Go loop and its class is the translator's shape check + review, not a "
             "mechanised semantics of Go; order inside IAVL/tm-db/tmjson and scheduling of the snapshot goroutine are "
             "validated by the multi-process runs only. IAVL root hash depends on insertion order, so per-entry "
             "independence is never used for tree writes.",
        technique="Coq proof (Permutation, insertion sort, fold commutation, oracle-parameterised denotation) + regenerated "
                  "classified inventory + multi-process differential"),
    "C09": dict(text="Theorem (appdb layer, complete): for every history of blocks (arbitrary programs over the appdb API) with any restarts, every getter (height, hash, validators, block times, versions, emission, price) returns what a never-restarted node returns; tied to the source by a translator (Commit write order, Save* guards, dirty-flag assignments) and by running random programs against the real AppDB. Node level: generated histories executed straight and with restarts on the real node, comparing responses, app hashes, emission, exports.",
                note=TB + "PARTIAL: caches of the state modules (order book, candidates, ...) are not modelled; for them only the node-level restart differential speaks.",
                technique="Coq proof (invariant: caches coherent with disk after Commit) + regenerated code shape + differential (AppDB programs, node restarts)"),
}
