"""Shared machinery for /verif/bin/check: proof gate, correspondence gate, verdicts, evidence."""
import json, os, re, subprocess, sys, time, hashlib, glob, shutil

VERIF = "/verif"
REPO = os.environ.get("VERIF_REPO", "/repo")
COQ = f"{VERIF}/coq"
WORK = f"{VERIF}/work"
ENV = dict(os.environ, VERIF_TMP="/verif/work", GOFLAGS="-mod=mod", GOPROXY="off", GOSUMDB="off", GOTOOLCHAIN="local",
           CGO_ENABLED="1")

TRUSTED_BASE = [
    "Coq 8.16.1 kernel (coqc); vm_compute used in Examples, witnesses and the cases.v cross-check; no native_compute",
    "axioms: none declared; Print Assumptions under every property theorem must print 'Closed under the global context' (checked on every run)",
    "extraction: ExtrOcamlBasic (bool/option/unit/list/prod/sumbool->OCaml) + ExtrOcamlZBigInt (positive/N/Z->Zarith); every run re-evaluates a sample of the same cases inside Coq with vm_compute to cross-check the extracted binary",
    "translator harness/cmd/xlate (go/ast): constants, price table, commit order, inventories regenerated from /repo on every run",
    "Go harness (harness/cmd/vharness), OCaml driver (ocaml/driver.ml), bin/check plumbing",
    "modelled, not verified: the Go source (tie = regenerated constants + differential execution), math/big, IAVL, tm-db, goleveldb, tmjson/amino, secp256k1/Keccak, Go runtime",
]


def sh(cmd, timeout=1800, cwd=VERIF, env=None, quiet=True):
    """Run a shell command; returns (rc, output)."""
    try:
        p = subprocess.run(cmd, shell=True, cwd=cwd, env=env or ENV, stdout=subprocess.PIPE,
                           stderr=subprocess.STDOUT, timeout=timeout, text=True, errors="replace")
        return p.returncode, p.stdout
    except subprocess.TimeoutExpired as e:
        out = e.stdout if isinstance(e.stdout, str) else (e.stdout or b"").decode(errors="replace")
        return 124, out + "\nTIMEOUT"


class Check:
    def __init__(self, pid, tier, seed):
        self.pid, self.tier, self.seed = pid, tier, seed
        self.t0 = time.time()
        self.violations = []     # (replay_path, no_input_found)
        self.known = []          # KNOWN-FINDING lines
        self.cov = {"evaluations": 0, "distinct_nontrivial": 0, "samples": [], "rule": "",
                    "traces_validated_against_impl": 0, "obligations": 0, "discharged": 0,
                    "checker_cmd": "", "trusted_base": list(TRUSTED_BASE)}
        self.assumptions = []
        self.notes = []
        os.makedirs(WORK, exist_ok=True)
        os.makedirs(f"{VERIF}/replays", exist_ok=True)
        os.makedirs(f"{VERIF}/evidence", exist_ok=True)
        kf = json.load(open(f"{VERIF}/known_findings.json")) if os.path.exists(f"{VERIF}/known_findings.json") else {"findings": []}
        self.known_findings = [f for f in kf.get("findings", []) if f.get("property") == pid and f.get("status") == "known"]

    # ---- reporting ---------------------------------------------------------------
    def replay_path(self, tag):
        return f"{VERIF}/replays/{self.pid}-{self.seed}-{tag}.json"

    def violation(self, tag, payload, found_input=True):
        path = self.replay_path(tag)
        payload = dict(payload, property=self.pid, seed=self.seed, tier=self.tier,
                       failing_input_found=found_input)
        with open(path, "w") as f:
            json.dump(payload, f, indent=1, default=str)
        self.violations.append((path, not found_input))

    def known_finding(self, key, what):
        """Returns True if a failure identified by `key` is listed as a known finding."""
        for f in self.known_findings:
            if f.get("key") == key:
                line = f"KNOWN-FINDING: property={self.pid} {f.get('what', what)}"
                if line not in self.known:
                    self.known.append(line)
                return True
        return False

    # ---- translator ---------------------------------------------------------------
    def regenerate(self):
        rc, out = sh(f"{VERIF}/bin/regen.sh", timeout=300)
        if rc != 0:
            self.notes.append("translator failed: " + out[-2000:])
            return False
        self.cov["translator_digest"] = out.strip().splitlines()[-1] if out.strip() else ""
        return True

    # ---- proof gate -----------------------------------------------------------------
    def proof_gate(self, targets, theorem_files):
        """make the .vo targets (full proofs), hygiene scan, Print Assumptions.  Returns
        (ok, failure_description)."""
        t = time.time()
        tg = " ".join(targets)
        cmd = f"cd {COQ} && ( [ -f Makefile ] || coq_makefile -f _CoqProject -o Makefile ) && timeout 1500 make -j16 {tg}"
        self.cov["checker_cmd"] = f"coq_makefile -f _CoqProject -o Makefile && make -j16 {tg}  (in /verif/coq; full .vo build) + Print Assumptions"
        rc, out = sh(cmd, timeout=1600)
        if rc != 0:
            m = re.findall(r'File "([^"]+)", line (\d+)[^\n]*\n(Error:[^\n]*(?:\n[^\n]+){0,4})', out)
            desc = "; ".join(f"{a}:{b}: {c.strip()[:300]}" for a, b, c in m) or out[-1500:]
            return False, f"coq build failed: {desc}"
        # hygiene
        rc, out = sh(r"grep -rnE '\b(Admitted|admit|Axiom|Parameter|Conjecture|Abort)\b|Unset Guard|bypass_check|type-in-type|Admit Obligations' "
                     f"{COQ}/Model {COQ}/Proofs {COQ}/Properties {COQ}/Generated {COQ}/Extract --include=*.v | grep -v '(\\*.*\\*)' || true")
        bad = [l for l in out.splitlines() if l.strip()]
        if bad:
            return False, "hygiene scan: " + "; ".join(bad[:5])
        # obligations: theorems/lemmas/examples proved in the dependency cone
        files = self.cone(theorem_files)
        nob = 0
        for f in files:
            src = open(f).read()
            src = re.sub(r'\(\*.*?\*\)', '', src, flags=re.S)
            nob += len(re.findall(r'^\s*(?:Local\s+|Global\s+|#\[[^\]]*\]\s*)?(?:Theorem|Lemma|Corollary|Example|Fact|Remark|Proposition)\s+\w+', src, flags=re.M))
        self.cov["obligations"] = nob
        self.cov["cone_files"] = [os.path.relpath(f, COQ) for f in files]
        # assumptions
        names = []
        for tf in theorem_files:
            src = open(f"{COQ}/{tf}").read()
            mod = os.path.basename(tf)[:-2]
            for n in re.findall(r'^\s*Theorem\s+(\w+)', src, flags=re.M):
                names.append((mod, n))
        if not names:
            return False, "no Theorem found in " + ",".join(theorem_files)
        av = f"{WORK}/assum_{self.pid}.v"
        with open(av, "w") as f:
            for mod in sorted(set(m for m, _ in names)):
                f.write(f"From Minter Require Import {mod}.\n")
            for mod, n in names:
                f.write(f'Print Assumptions {mod}.{n}.\n')
        rc, out = sh(f"cd {WORK} && timeout 300 coqc -Q {COQ}/Model Minter -Q {COQ}/Generated Minter -Q {COQ}/Proofs Minter -Q {COQ}/Properties Minter {av}")
        if rc != 0:
            return False, "Print Assumptions run failed: " + out[-800:]
        closed = out.count("Closed under the global context")
        axioms = [l for l in out.splitlines() if l.strip() and "Closed under" not in l]
        self.cov["theorems"] = [n for _, n in names]
        self.cov["print_assumptions"] = f"{closed}/{len(names)} closed under the global context" + ("" if not axioms else "; other: " + " | ".join(axioms[:10]))
        if closed != len(names):
            return False, "Print Assumptions reports axioms: " + " | ".join(axioms[:10])
        self.cov["discharged"] = nob
        if self.tier == "thorough":
            # independent re-check of the compiled property files and everything they depend on
            mods = " ".join("Minter." + os.path.basename(tf)[:-2] for tf in theorem_files)
            rc, out = sh(f"cd {COQ} && timeout 5400 coqchk -silent -o -Q Generated Minter -Q Model Minter -Q Proofs Minter -Q Properties Minter {mods}", timeout=5500)
            summ = out[out.find("CONTEXT SUMMARY"):] if "CONTEXT SUMMARY" in out else out[-600:]
            ok = rc == 0 and all(f"{k} <none>" in re.sub(r"\s+", " ", summ) for k in
                                 ("Axioms:", "relying on type-in-type:", "relying on unsafe (co)fixpoints:", "positivity is assumed:"))
            self.cov["coqchk"] = re.sub(r"\s+", " ", summ)[:600]
            self.cov["checker_cmd"] += f"; coqchk -silent -o {mods}"
            if not ok:
                return False, "coqchk -o does not report a clean context: " + self.cov["coqchk"]
        self.cov["proof_gate_s"] = round(time.time() - t, 1)
        return True, ""

    def cone(self, theorem_files):
        """Transitive dependencies (our .v files) of the given files, via coqdep."""
        rc, out = sh(f"cd {COQ} && coqdep -f _CoqProject 2>/dev/null")
        deps = {}
        for line in out.splitlines():
            if ":" not in line:
                continue
            lhs, rhs = line.split(":", 1)
            tg = [x for x in lhs.split() if x.endswith(".vo")]
            ds = [x[:-1] for x in rhs.split() if x.endswith(".vo")]  # .vo -> .v
            for t_ in tg:
                deps[t_[:-1]] = [d for d in ds]
        seen, todo = set(), list(theorem_files)
        while todo:
            f = todo.pop()
            if f in seen:
                continue
            seen.add(f)
            todo.extend(deps.get(f, []))
        return sorted(f"{COQ}/{f}" for f in seen if os.path.exists(f"{COQ}/{f}"))

    # ---- correspondence gate -------------------------------------------------------------
    def build_harness(self, race=False):
        # the race build uses the plain binary too (sequential modes): both are always rebuilt from the current tree
        rc, out = sh(f"{VERIF}/bin/build_harness.sh", timeout=1200)
        if rc == 0 and race:
            rc, out = sh(f"{VERIF}/bin/build_harness.sh -race", timeout=1200)
        if rc != 0:
            return False, out[-3000:]
        return True, ""

    def build_model(self):
        rc, out = sh(f"{VERIF}/bin/build_model.sh", timeout=900)
        return rc == 0, out[-2000:]

    def run_harness(self, cmd, n, tag, extra="", timeout=1500, seed=None, race=False):
        """Runs vharness <cmd>; returns (stats dict or None, cases path, raw output)."""
        cases = f"{WORK}/{self.pid}_{tag}.txt"
        stats = f"{WORK}/{self.pid}_{tag}.json"
        for p in (cases, stats):
            if os.path.exists(p):
                os.remove(p)
        s = self.seed if seed is None else seed
        binary = "vharness-race" if race else "vharness"
        rc, out = sh(f"timeout {timeout} {VERIF}/harness/bin/{binary} {cmd} -seed {s} -n {n} -out {cases} -stats {stats} {extra}",
                     timeout=timeout + 30)
        if rc != 0 or not os.path.exists(stats):
            return None, cases, f"rc={rc}\n" + out[-3000:]
        return json.load(open(stats)), cases, out

    def run_model(self, cases, timeout=900):
        """Runs the extracted model over the cases file. Returns (mismatch lines, summary)."""
        rc, out = sh(f"ulimit -s unlimited 2>/dev/null || ulimit -s 4000000 2>/dev/null; timeout {timeout} {VERIF}/ocaml/modelrun {cases}", timeout=timeout + 30)  # deep recursion of the extracted codec on 64 kB payloads
        mism = [l for l in out.splitlines() if l.startswith("MISMATCH")]
        summ = [l for l in out.splitlines() if l.startswith("SUMMARY")]
        if rc not in (0, 3) or not summ:
            return None, out[-2000:]
        return mism, summ[0]

    def cross_check_vm(self, cases, k=60):
        """Evaluates the first k cases inside Coq with vm_compute (no extraction involved).
        Returns (ok, detail)."""
        blocks, cur = [], None
        for line in open(cases):
            line = line.rstrip("\n")
            if line.startswith("case "):
                cur = [int(line[5:]), [], []]
            elif line.startswith(">"):
                cur[1].append(line[1:].split())
            elif line.startswith("<"):
                cur[2].append(line[1:].split())
            elif line == "end":
                if sum(len(x) for x in cur[1]) < 4000:
                    blocks.append(cur)
                if len(blocks) >= k:
                    break
        if not blocks:
            return True, "no cases"
        def zl(l):
            return "[" + "; ".join(x if not x.startswith("-") else f"({x})" for x in l) + "]"
        def zll(ll):
            return "[" + "; ".join(zl(l) for l in ll) + "]"
        v = f"{WORK}/cases_{self.pid}.v"
        with open(v, "w") as f:
            f.write("From Minter Require Import Base Dispatch.\nOpen Scope Z_scope.\n")
            f.write("Definition cases : list (Z * list (list Z) * list (list Z)) := [\n")
            f.write(";\n".join(f"({m}, {zll(o)}, {zll(e)})" for m, o, e in blocks))
            f.write("].\nDefinition bad := Eval vm_compute in count_mismatches cases.\nPrint bad.\n")
        rc, out = sh(f"cd {WORK} && timeout 600 coqc -Q {COQ}/Model Minter -Q {COQ}/Generated Minter {v}", timeout=650)
        ok = rc == 0 and re.search(r"bad\s*=\s*0%nat|bad = 0\b", out) is not None
        return ok, f"{len(blocks)} cases re-evaluated by vm_compute in Coq: " + ("all agree" if ok else out[-600:])

    # ---- finish ------------------------------------------------------------------------------
    def finish(self, level="proof"):
        wall = round(time.time() - self.t0, 2)
        ev = {"property_id": self.pid, "tier": self.tier, "seed": self.seed, "level": level,
              "coverage": self.cov, "assumptions": self.assumptions, "wall_s": wall,
              "violations": len(self.violations), "notes": self.notes, "known_findings_hit": self.known}
        with open(f"{VERIF}/evidence/{self.pid}.json", "w") as f:
            json.dump(ev, f, indent=1, default=str)
        for k in self.known:
            print(k)
        for path, noinput in self.violations:
            print(f"VIOLATION property={self.pid} replay={path}" + (" no-failing-input-found" if noinput else ""))
        print(f"{self.pid} tier={self.tier} seed={self.seed} evaluations={self.cov['evaluations']} "
              f"obligations={self.cov['obligations']}/{self.cov['discharged']} violations={len(self.violations)} wall={wall}s")
        sys.exit(1 if self.violations else 0)
