#!/usr/bin/env python3
"""Shrink a pool3 case: drop operations while impl and Coq model still disagree."""
import subprocess, sys
def run(ops):
    open('/verif/work/shr_ops.txt','w').write("".join("> "+o+"\n" for o in ops))
    out=subprocess.run("/verif/harness/bin/vharness pool3replay /verif/work/shr_ops.txt 2>/dev/null",shell=True,capture_output=True,text=True).stdout
    lines=[l for l in out.splitlines() if l.startswith(">") or l.startswith("<")]
    open('/verif/work/shr_case.txt','w').write("case 3\n"+"\n".join(lines)+"\nend\n")
    r=subprocess.run("/verif/ocaml/modelrun /verif/work/shr_case.txt",shell=True,capture_output=True,text=True).stdout
    return "MISMATCH" in r, r
ops=[l[2:].strip() for l in open(sys.argv[1]) if l.startswith(">")]
bad,_=run(ops)
assert bad, "no mismatch to start with"
changed=True
while changed:
    changed=False
    i=1
    while i<len(ops):
        t=ops[:i]+ops[i+1:]
        ok=all(t[k-1]=='5' for k in range(len(t)) if t[k]=='7')
        b=ok and run(t)[0]
        if b:
            ops=t; changed=True
        else:
            i+=1
b,r=run(ops)
print("\n".join(ops)); print(r)
print(open('/verif/work/shr_case.txt').read())
